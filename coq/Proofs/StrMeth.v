(* C15: the natively implemented str methods of FmtStr (split, splitlines, ljust,
   rjust), shared_atts and the __getattr__ delegation wrapper, proved against the
   references of Spec/StrSpec.v on top of the slicing theorems of Proofs/Slice.v.
   All statements are for arbitrary FmtStrs (any number of runs, empty runs). *)
From Curtsies Require Import Model.Base Spec.ListOps Model.Slice Spec.StrSpec Model.StrMeth Proofs.Slice.
From Curtsies Require Model.Atts.
From Coq Require Import Lia ZifyBool ZifyNat ZifyN.
Local Close Scope N_scope.

(* ====================================================================== *)
(* 0. small list facts                                                       *)
Section ListFacts.
Context {A : Type}.

Lemma sub_as_pyslice (l : list A) (a b : Z) : (0 <= a)%Z -> (0 <= b)%Z ->
  pyslice l (Some a) (Some b) = sub l (Z.to_nat a) (Z.to_nat b).
Proof.
  intros Ha Hb. rewrite pyslice_between by assumption. unfold sub. f_equal. lia.
Qed.

Lemma sub_to_end (l : list A) (a : nat) : sub l a (length l) = skipn a l.
Proof. unfold sub. apply firstn_all2. rewrite skipn_length. lia. Qed.

Lemma sub_empty (l : list A) (a b : nat) : b <= a -> sub l a b = [].
Proof. intros H. unfold sub. now replace (b - a) with 0 by lia. Qed.

Lemma sub_length (l : list A) (a b : nat) : length (sub l a b) = Nat.min (b - a) (length l - a).
Proof. unfold sub. now rewrite firstn_length, skipn_length. Qed.

Lemma sub_map {B} (g : A -> B) (l : list A) a b : sub (map g l) a b = map g (sub l a b).
Proof. unfold sub. now rewrite skipn_map, firstn_map. Qed.

Lemma skipn_skipn (l : list A) m n : skipn m (skipn n l) = skipn (n + m) l.
Proof. apply skipn_add. Qed.

Lemma firstn_plus (m : list A) : forall x y, firstn x m ++ firstn y (skipn x m) = firstn (x + y) m.
Proof.
  induction m as [|h m IH]; intros x y.
  - now rewrite skipn_nil, !firstn_nil.
  - destruct x as [|x]; [reflexivity|]. cbn [firstn skipn Nat.add app]. now rewrite IH.
Qed.

(* l[a:b] ++ l[b:c] = l[a:c] *)
Lemma sub_app (l : list A) a b c : a <= b -> b <= c -> sub l a b ++ sub l b c = sub l a c.
Proof.
  intros H1 H2. unfold sub.
  replace (skipn b l) with (skipn (b - a) (skipn a l)) by (rewrite skipn_skipn; f_equal; lia).
  rewrite firstn_plus. f_equal. lia.
Qed.

Lemma sub_skipn (l : list A) a b : a <= b -> sub l a b ++ skipn b l = skipn a l.
Proof.
  intros H. unfold sub. rewrite <- (firstn_skipn (b - a) (skipn a l)) at 2.
  f_equal. rewrite skipn_skipn. f_equal. lia.
Qed.

(* one more item *)
Lemma sub_snoc (pre r : list A) (c : A) start : start <= length pre ->
  sub (pre ++ c :: r) start (S (length pre)) = sub (pre ++ c :: r) start (length pre) ++ [c].
Proof.
  intros H. rewrite <- (sub_app _ start (length pre) (S (length pre))) by lia. f_equal.
  unfold sub. rewrite skipn_app, skipn_all, Nat.sub_diag. cbn [app skipn].
  now replace (S (length pre) - length pre) with 1 by lia.
Qed.

Lemma map_removelast {B} (g : A -> B) (l : list A) : map g (removelast l) = removelast (map g l).
Proof.
  induction l as [|x l IH]; [reflexivity|]. destruct l as [|y l]; [reflexivity|].
  cbn [removelast map] in *. now rewrite IH.
Qed.

Lemma rev_cons_case (l : list A) : l = [] \/ exists init x, l = init ++ [x].
Proof.
  destruct (rev l) as [|x r] eqn:E.
  - left. apply (f_equal (@rev A)) in E. now rewrite rev_involutive in E.
  - right. exists (rev r), x. apply (f_equal (@rev A)) in E. now rewrite rev_involutive in E.
Qed.
End ListFacts.

Lemma map_res_ok {X Y} (g : X -> res Y) (h : X -> Y) (l : list X) :
  (forall x, In x l -> g x = Ok (h x)) -> map_res g l = Ok (map h l).
Proof.
  induction l as [|x l IH]; intros H; [reflexivity|].
  cbn [map_res map]. rewrite (H x) by now left. cbn [bind].
  rewrite IH by (intros y Hy; apply H; now right). reflexivity.
Qed.

(* ====================================================================== *)
(* 1. split, for an arbitrary list of match spans                            *)
Definition zslices {A} (l : list A) (pts : list (Z * Z)) : list (list A) :=
  map (fun p => pyslice l (Some (fst p)) (Some (snd p))) pts.

Lemma split_matches_ok f ms :
  split_matches f ms =
  Ok (map (fun p => slice_of f (Some (fst p)) (Some (snd p))) (cut_points ms (Z.of_nat (length (text f))))).
Proof.
  unfold split_matches. apply map_res_ok. intros [a b] _. cbn [fst snd]. apply getitem_slice_ok.
Qed.

(* the pieces are the Python slices of the cell list between the matches *)
Theorem split_matches_cells f ms :
  exists rs, split_matches f ms = Ok rs /\
             map cells rs = zslices (cells f) (cut_points ms (Z.of_nat (length (cells f)))).
Proof.
  eexists. split; [apply split_matches_ok|].
  rewrite map_map. unfold zslices. rewrite cells_length_text.
  apply map_ext. intros [a b]. apply slice_of_cells.
Qed.

Definition nat_spans (ms : list span) : list (nat * nat) :=
  map (fun m => (Z.to_nat (fst m), Z.to_nat (snd m))) ms.
Definition nonneg_spans (ms : list span) : Prop := Forall (fun m => (0 <= fst m)%Z /\ (0 <= snd m)%Z) ms.

Lemma zslices_cut_from {A} (l : list A) : forall ms start, (0 <= start)%Z -> nonneg_spans ms ->
  zslices l (combine (start :: map snd ms) (map fst ms ++ [Z.of_nat (length l)])) =
  cut_from l (Z.to_nat start) (nat_spans ms).
Proof.
  induction ms as [|[a b] ms IH]; intros start Hs Hn.
  - cbn. rewrite sub_as_pyslice by lia. rewrite Nat2Z.id. now rewrite sub_to_end.
  - inversion Hn as [|? ? [Ha Hb] Hn']; subst. cbn [fst snd] in *.
    cbn [map app combine zslices nat_spans cut_from fst snd].
    rewrite sub_as_pyslice by lia. f_equal.
    apply (IH b Hb Hn').
Qed.

(* ... i.e. the pieces of the cell list outside the spans *)
Theorem split_matches_cut f ms : nonneg_spans ms ->
  exists rs, split_matches f ms = Ok rs /\ map cells rs = cut_spans (cells f) (nat_spans ms).
Proof.
  intros Hn. destruct (split_matches_cells f ms) as [rs [H1 H2]]. exists rs. split; [exact H1|].
  rewrite H2. unfold cut_points, cut_spans. now rewrite zslices_cut_from.
Qed.

Lemma cut_from_map {A B} (g : A -> B) (l : list A) : forall spans start,
  cut_from (map g l) start spans = map (map g) (cut_from l start spans).
Proof.
  induction spans as [|[a b] r IH]; intros start; cbn [cut_from map].
  - now rewrite skipn_map.
  - now rewrite sub_map, IH.
Qed.

Corollary split_matches_text f ms : nonneg_spans ms ->
  exists rs, split_matches f ms = Ok rs /\ map text rs = cut_spans (text f) (nat_spans ms).
Proof.
  intros Hn. destruct (split_matches_cut f ms Hn) as [rs [H1 H2]]. exists rs. split; [exact H1|].
  transitivity (map (map fst) (map cells rs)).
  - rewrite map_map. apply map_ext. intros r. apply text_cells.
  - rewrite H2, (text_cells f). unfold cut_spans. symmetry. apply cut_from_map.
Qed.

(* putting the matched sub-lists back between the pieces gives the list back *)
Theorem interleave_cut {A} (l : list A) : forall spans start, spans_ok start (length l) spans ->
  interleave (cut_from l start spans) (map (fun s => sub l (fst s) (snd s)) spans) = skipn start l.
Proof.
  induction spans as [|[a b] r IH]; intros start H.
  - cbn. reflexivity.
  - cbn [spans_ok] in H. destruct H as (H1 & H2 & H3).
    cbn [cut_from map interleave fst snd].
    assert (E : cut_from l b r <> []) by (destruct r as [|[? ?] ?]; discriminate).
    destruct (cut_from l b r) as [|p ps] eqn:EC; [congruence|].
    rewrite <- EC, IH by exact H3.
    rewrite sub_skipn by exact H2. now rewrite sub_skipn.
Qed.

Lemma spans_okb_ok start n spans : spans_okb start n spans = true <-> spans_ok start n spans.
Proof.
  revert start. induction spans as [|[a b] r IH]; intros start; cbn [spans_okb spans_ok].
  - apply Nat.leb_le.
  - rewrite !andb_true_iff, !Nat.leb_le, IH. tauto.
Qed.

(* ====================================================================== *)
(* 2. an explicit separator: the literal scanner against str.split            *)
Lemma is_prefix_starts p s : is_prefix p s = starts p s.
Proof. revert s. induction p as [|x p IH]; intros [|y s]; cbn; try reflexivity. Qed.

Lemma starts_length p s : starts p s = true -> length p <= length s.
Proof.
  revert s. induction p as [|x p IH]; intros [|y s]; cbn; intros H; try lia; try discriminate.
  apply andb_true_iff in H as [_ H]. apply IH in H. lia.
Qed.

Lemma lit_scan_split (sep : str) : sep <> [] ->
  forall s pre skip start cur,
    let T := pre ++ s in
    let p := length pre in
    ((skip = 0 /\ start <= p /\ cur = rev (sub T start p)) \/ (0 < skip /\ start = p + skip /\ cur = [])) ->
    skip <= length s ->
    cut_from T start (nat_spans (lit_scan sep s (Z.of_nat p) skip)) = split_go sep s skip cur.
Proof.
  intros Hsep. induction s as [|c r IH]; intros pre skip start cur T p Hinv Hskip.
  - cbn [length] in Hskip. destruct Hinv as [(-> & Hst & ->)|(Hpos & _)]; [|lia].
    destruct sep as [|x sep']; [congruence|]. cbn [lit_scan nat_spans map cut_from split_go].
    rewrite rev_involutive. subst T p. rewrite app_nil_r. now rewrite sub_to_end.
  - assert (ET : T = (pre ++ [c]) ++ r) by (subst T; now rewrite <- app_assoc).
    assert (EP : length (pre ++ [c]) = S p) by (rewrite app_length; cbn; lia).
    assert (EZ : (Z.of_nat p + 1)%Z = Z.of_nat (length (pre ++ [c]))) by lia.
    cbn [lit_scan split_go]. destruct skip as [|k].
    + destruct Hinv as [(_ & Hst & Hcur)|(Hpos & _)]; [|lia].
      rewrite is_prefix_starts. destruct (starts sep (c :: r)) eqn:Epre.
      * (* a match starts here *)
        cbn [nat_spans map fst snd cut_from].
        replace (Z.to_nat (Z.of_nat p)) with p by lia.
        replace (Z.to_nat (Z.of_nat p + Z.of_nat (length sep))) with (p + length sep) by lia.
        rewrite Hcur, rev_involutive. f_equal.
        rewrite EZ. fold (nat_spans (lit_scan sep r (Z.of_nat (length (pre ++ [c]))) (length sep - 1))).
        rewrite ET. apply IH.
        -- rewrite EP. destruct sep as [|x sep']; [congruence|]. cbn [length].
           destruct sep' as [|y sep'']; cbn [length].
           ++ left. split; [lia|]. split; [lia|]. rewrite sub_empty by lia. reflexivity.
           ++ right. split; [lia|]. split; [lia|reflexivity].
        -- apply starts_length in Epre. cbn [length] in Epre. lia.
      * rewrite EZ, ET. apply IH; [|lia].
        left. split; [reflexivity|]. rewrite EP. split; [lia|].
        rewrite <- ET. subst T p. rewrite sub_snoc by exact Hst.
        rewrite rev_app_distr. cbn [rev app]. now rewrite Hcur.
    + destruct Hinv as [(Hz & _)|(_ & Hst & ->)]; [discriminate|].
      rewrite EZ, ET. apply IH; [|cbn [length] in Hskip; lia].
      rewrite EP. destruct k as [|k'].
      * left. split; [reflexivity|]. split; [lia|]. rewrite sub_empty by lia. reflexivity.
      * right. split; [lia|]. split; [lia|reflexivity].
Qed.

Lemma lit_spans_split sep s : sep <> [] ->
  cut_spans s (nat_spans (lit_spans sep s)) = str_split s sep.
Proof.
  intros H. unfold cut_spans, lit_spans, str_split.
  apply (lit_scan_split sep H s [] 0 0 []); [|lia].
  left. split; [reflexivity|]. split; [cbn; lia|]. cbn. reflexivity.
Qed.

(* the spans the scanner reports are non-negative, sorted, non-overlapping and inside the text *)
Lemma lit_scan_nonneg sep : forall s pos skip, (0 <= pos)%Z -> nonneg_spans (lit_scan sep s pos skip).
Proof.
  induction s as [|c r IH]; intros pos skip Hp; cbn [lit_scan].
  - destruct sep; repeat constructor; cbn; lia.
  - destruct skip as [|k]; [|apply IH; lia].
    destruct (is_prefix sep (c :: r)); [|apply IH; lia].
    constructor; [cbn; lia|]. apply IH. lia.
Qed.

Lemma spans_ok_weaken start start' n spans : start' <= start -> spans_ok start n spans -> spans_ok start' n spans.
Proof. destruct spans as [|[a b] r]; cbn [spans_ok]; intros; [lia|]. split; [lia|tauto]. Qed.

Lemma lit_scan_spans_ok sep : sep <> [] -> forall s p skip, skip <= length s ->
  spans_ok (p + skip) (p + length s) (nat_spans (lit_scan sep s (Z.of_nat p) skip)).
Proof.
  intros Hsep. induction s as [|c r IH]; intros p skip Hskip; cbn [lit_scan].
  - destruct sep; [congruence|]. cbn in *. lia.
  - cbn [length] in *. replace (Z.of_nat p + 1)%Z with (Z.of_nat (S p)) by lia.
    destruct skip as [|k].
    + rewrite is_prefix_starts. destruct (starts sep (c :: r)) eqn:E.
      * apply starts_length in E. cbn [length] in E.
        cbn [nat_spans map fst snd spans_ok]. fold (nat_spans (lit_scan sep r (Z.of_nat (S p)) (length sep - 1))).
        split; [lia|]. split; [lia|].
        replace (Z.to_nat (Z.of_nat p + Z.of_nat (length sep))) with (S p + (length sep - 1))
          by (destruct sep; [congruence|cbn [length]; lia]).
        replace (p + S (length r)) with (S p + length r) by lia. apply IH. lia.
      * replace (p + 0) with p by lia.
        specialize (IH (S p) 0 ltac:(lia)).
        replace (p + S (length r)) with (S p + length r) by lia.
        replace (S p + 0) with (S p) in IH by lia.
        apply (spans_ok_weaken (S p)); [lia | exact IH].
    + replace (p + S k) with (S p + k) by lia. replace (p + S (length r)) with (S p + length r) by lia.
      apply IH. lia.
Qed.

(* f.split(sep): same texts as str.split, each piece the sub-list of the cells *)
Theorem split_lit_text is_space f sep : sep <> [] ->
  exists rs, split is_space f (SepLit sep) None = Ok rs /\ map text rs = str_split (text f) sep.
Proof.
  intros H. cbn [split].
  destruct (split_matches_text f (lit_spans sep (text f))) as [rs [H1 H2]].
  - apply lit_scan_nonneg. lia.
  - exists rs. split; [exact H1|]. now rewrite H2, lit_spans_split.
Qed.

Theorem split_lit_cells is_space f sep : sep <> [] ->
  let spans := nat_spans (lit_spans sep (text f)) in
  exists rs, split is_space f (SepLit sep) None = Ok rs /\
    map cells rs = cut_spans (cells f) spans /\
    spans_ok 0 (length (cells f)) spans /\
    interleave (map cells rs) (map (fun s => sub (cells f) (fst s) (snd s)) spans) = cells f.
Proof.
  intros H spans. cbn [split].
  destruct (split_matches_cut f (lit_spans sep (text f))) as [rs [H1 H2]].
  - apply lit_scan_nonneg. lia.
  - exists rs. split; [exact H1|]. split; [exact H2|].
    assert (OK : spans_ok 0 (length (cells f)) spans).
    { subst spans. unfold lit_spans. rewrite cells_length_text.
      apply (lit_scan_spans_ok sep H (text f) 0 0). lia. }
    split; [exact OK|]. rewrite H2. unfold cut_spans. now rewrite interleave_cut.
Qed.

(* regex=True: any sorted list of non-overlapping spans inside the text *)
Theorem split_regex_cells is_space f ms :
  nonneg_spans ms -> spans_ok 0 (length (cells f)) (nat_spans ms) ->
  let spans := nat_spans ms in
  exists rs, split is_space f (SepRegex ms) None = Ok rs /\
    map cells rs = cut_spans (cells f) spans /\
    map text rs = cut_spans (text f) spans /\
    interleave (map cells rs) (map (fun s => sub (cells f) (fst s) (snd s)) spans) = cells f.
Proof.
  intros Hn OK spans. cbn [split].
  destruct (split_matches_cut f ms Hn) as [rs [H1 H2]].
  destruct (split_matches_text f ms Hn) as [rs' [H1' H2']].
  rewrite H1 in H1'. injection H1' as <-.
  exists rs. repeat split; try assumption.
  rewrite H2. unfold cut_spans. now rewrite interleave_cut.
Qed.

Theorem split_maxsplit is_space f sep k : split is_space f sep (Some k) = Raise NotImplementedError.
Proof. reflexivity. Qed.

(* ====================================================================== *)
(* 3. the reference str.split is a right inverse of join                     *)
Lemma join_lists_cons2 {A} (sep x y : list A) r :
  join_lists sep (x :: y :: r) = x ++ sep ++ join_lists sep (y :: r).
Proof. cbn [join_lists flat_map]. now rewrite <- app_assoc. Qed.

Lemma join_lists_cons_ne {A} (sep x : list A) rest : rest <> [] ->
  join_lists sep (x :: rest) = x ++ sep ++ join_lists sep rest.
Proof. destruct rest as [|y r]; [congruence|]. intros _. apply join_lists_cons2. Qed.

Lemma starts_split p s : starts p s = true -> s = p ++ skipn (length p) s.
Proof.
  revert s. induction p as [|x p IH]; intros [|y s]; cbn; intros H; try reflexivity; try discriminate.
  apply andb_true_iff in H as [E H]. apply N.eqb_eq in E. subst y. f_equal. now apply IH.
Qed.

Lemma split_go_nonempty sep s skip cur : split_go sep s skip cur <> [].
Proof.
  revert skip cur. induction s as [|c r IH]; intros skip cur; cbn [split_go]; [discriminate|].
  destruct skip; [|apply IH]. destruct (starts sep (c :: r)); [discriminate|apply IH].
Qed.

Lemma join_split_go sep : sep <> [] -> forall s skip cur, skip <= length s ->
  join_lists sep (split_go sep s skip cur) = rev cur ++ skipn skip s.
Proof.
  intros Hsep. induction s as [|c r IH]; intros skip cur Hskip.
  - cbn in *. now replace skip with 0 by lia.
  - cbn [split_go]. destruct skip as [|k].
    + destruct (starts sep (c :: r)) eqn:E.
      * rewrite join_lists_cons_ne by apply split_go_nonempty. rewrite IH.
        -- cbn [rev app skipn]. f_equal. rewrite (starts_split _ _ E) at 1.
           destruct sep as [|x sep']; [congruence|]. cbn [length skipn]. do 2 f_equal. lia.
        -- apply starts_length in E. cbn [length] in E. lia.
      * rewrite IH by lia. cbn [rev skipn]. now rewrite <- app_assoc.
    + cbn [length] in Hskip. rewrite IH by lia. reflexivity.
Qed.

(* sep.join(s.split(sep)) == s *)
Theorem join_str_split s sep : sep <> [] -> join_lists sep (str_split s sep) = s.
Proof. intros H. unfold str_split. rewrite join_split_go by (assumption || lia). reflexivity. Qed.

(* ====================================================================== *)
(* 4. splitlines                                                             *)
Definition is_nil {A} (l : list A) : bool := match l with [] => true | _ :: _ => false end.
(* drop a final empty piece *)
Definition fixlast (ps : list str) : list str := if is_nil (last ps [0%N]) then removelast ps else ps.
(* every piece but the last gets its newline back *)
Definition addnl (ps : list str) : list str := map (fun p => p ++ newline) (removelast ps) ++ [last ps []].

Lemma fixlast_cons x ps : ps <> [] -> fixlast (x :: ps) = x :: fixlast ps.
Proof.
  intros H. unfold fixlast. destruct ps as [|y ps]; [congruence|].
  change (last (x :: y :: ps) [0%N]) with (last (y :: ps) [0%N]).
  destruct (is_nil (last (y :: ps) [0%N])); reflexivity.
Qed.

Lemma addnl_cons x ps : ps <> [] -> addnl (x :: ps) = (x ++ newline) :: addnl ps.
Proof. intros H. unfold addnl. destruct ps as [|y ps]; [congruence|]. reflexivity. Qed.

Lemma addnl_nonempty ps : addnl ps <> [].
Proof. unfold addnl. destruct (map (fun p => p ++ newline) (removelast ps)); discriminate. Qed.

Lemma starts_newline c r : starts newline (c :: r) = N.eqb c 10.
Proof. unfold newline. cbn [starts]. rewrite andb_true_r. apply N.eqb_sym. Qed.

Lemma lines_go_false s : forall cur, lines_go false s cur = fixlast (split_go newline s 0 cur).
Proof.
  induction s as [|c r IH]; intros cur.
  - cbn. unfold fixlast. cbn. destruct cur as [|x cur]; [reflexivity|].
    destruct (rev (x :: cur)) eqn:E; [|reflexivity].
    apply (f_equal (@length _)) in E. rewrite rev_length in E. discriminate.
  - cbn [lines_go split_go]. rewrite starts_newline. destruct (N.eqb c 10).
    + rewrite app_nil_r, fixlast_cons by apply split_go_nonempty. f_equal. apply IH.
    + apply IH.
Qed.

Lemma lines_go_true s : forall cur, lines_go true s cur = fixlast (addnl (split_go newline s 0 cur)).
Proof.
  induction s as [|c r IH]; intros cur.
  - cbn. unfold fixlast. cbn. destruct cur as [|x cur]; [reflexivity|].
    destruct (rev (x :: cur)) eqn:E; [|reflexivity].
    apply (f_equal (@length _)) in E. rewrite rev_length in E. discriminate.
  - cbn [lines_go split_go]. rewrite starts_newline. destruct (N.eqb c 10).
    + rewrite addnl_cons by apply split_go_nonempty.
      rewrite fixlast_cons by apply addnl_nonempty. f_equal. apply IH.
    + apply IH.
Qed.

(* the running sums and the re-slicing of keepends=True *)
Lemma dec_last_snoc init z : dec_last (init ++ [z]) = Ok (init ++ [(z - 1)%Z]).
Proof. unfold dec_last. rewrite rev_app_distr. cbn [rev app]. now rewrite rev_involutive. Qed.

Lemma dec_last_cons x l : l <> [] ->
  dec_last (x :: l) = match dec_last l with Ok t => Ok (x :: t) | Raise e => Raise e end.
Proof.
  intros H. destruct (rev_cons_case l) as [->|(init & z & ->)]; [congruence|].
  change (x :: init ++ [z]) with ((x :: init) ++ [z]). now rewrite !dec_last_snoc.
Qed.

Lemma accumulate_cons a x l : accumulate a (x :: l) = (a + x)%Z :: accumulate (a + x)%Z l.
Proof. reflexivity. Qed.

Lemma pyslice_middle {A} (pre p post : list A) :
  pyslice (pre ++ p ++ post) (Some (Z.of_nat (length pre))) (Some (Z.of_nat (length pre) + Z.of_nat (length p))%Z) = p.
Proof.
  rewrite pyslice_between by lia.
  rewrite Nat2Z.id, skipn_app, skipn_all, Nat.sub_diag. cbn [app skipn].
  replace (Z.to_nat (Z.of_nat (length pre) + Z.of_nat (length p) - Z.of_nat (length pre))) with (length p) by lia.
  rewrite firstn_app, firstn_all, Nat.sub_diag. cbn [firstn]. apply app_nil_r.
Qed.

Lemma reslice_addnl : forall (ps : list str) (pre : str), ps <> [] ->
  exists ends,
    dec_last (accumulate (Z.of_nat (length pre)) (map (fun p => (Z.of_nat (length p) + 1)%Z) ps)) = Ok ends /\
    zslices (pre ++ join_lists newline ps) (combine (Z.of_nat (length pre) :: ends) ends) = addnl ps.
Proof.
  induction ps as [|p ps IH]; intros pre H; [congruence|].
  destruct ps as [|q r].
  - exists [(Z.of_nat (length pre) + Z.of_nat (length p))%Z]. split.
    + cbn [map accumulate]. change [?x] with ([] ++ [x]). rewrite dec_last_snoc. cbn [app]. f_equal. f_equal. lia.
    + cbn [combine zslices map fst snd join_lists flat_map]. rewrite app_nil_r.
      rewrite <- (app_nil_r (pre ++ p)), <- app_assoc. rewrite pyslice_middle. reflexivity.
  - destruct (IH (pre ++ p ++ newline) ltac:(discriminate)) as (ends & E1 & E2).
    set (e0 := (Z.of_nat (length pre) + (Z.of_nat (length p) + 1))%Z).
    assert (EL : Z.of_nat (length (pre ++ p ++ newline)) = e0).
    { rewrite !app_length. cbn [length newline]. lia. }
    exists (e0 :: ends). split.
    + rewrite map_cons, accumulate_cons. fold e0.
      rewrite dec_last_cons by (cbn [map accumulate]; discriminate).
      rewrite EL in E1.
      match goal with |- match ?d with _ => _ end = _ => replace d with (@Ok (list Z) ends) by (symmetry; exact E1) end.
      reflexivity.
    + rewrite addnl_cons by discriminate. cbn [combine zslices map fst snd].
      replace (join_lists newline (p :: q :: r)) with (p ++ newline ++ join_lists newline (q :: r))
        by (symmetry; apply join_lists_cons2).
      f_equal.
      * replace e0 with (Z.of_nat (length pre) + Z.of_nat (length (p ++ newline)))%Z
          by (rewrite app_length; cbn [length newline]; lia).
        rewrite (app_assoc p). apply pyslice_middle.
      * rewrite EL in E2. unfold zslices in E2. rewrite <- E2. f_equal.
        now rewrite <- !app_assoc.
Qed.

Lemma last_item_snoc {X} (init : list X) x : last_item (init ++ [x]) = Ok x.
Proof. unfold last_item. now rewrite rev_app_distr. Qed.

Lemma last_snoc {X} (init : list X) x d : last (init ++ [x]) d = x.
Proof. apply last_last. Qed.

Lemma removelast_snoc {X} (init : list X) x : removelast (init ++ [x]) = init.
Proof. apply removelast_last. Qed.

(* the final rule `lines if lines[-1] else lines[:-1]` at the level of texts *)
Lemma finish_lines (lines : list fmtstr) : lines <> [] ->
  exists rs, bind (last_item lines) (fun l => Ok (if (len l =? 0)%Z then removelast lines else lines)) = Ok rs /\
             map text rs = fixlast (map text lines) /\
             (forall r, In r rs -> In r lines).
Proof.
  intros H. destruct (rev_cons_case lines) as [->|(init & l & ->)]; [congruence|].
  rewrite last_item_snoc. cbn [bind]. eexists. split; [reflexivity|].
  unfold fixlast. rewrite map_app. cbn [map]. rewrite last_snoc.
  rewrite len_text. destruct (text l) as [|c t] eqn:E; cbn [length is_nil].
  - replace (Z.of_nat 0 =? 0)%Z with true by reflexivity.
    rewrite !removelast_snoc. split; [reflexivity|]. intros r Hr. apply in_or_app. now left.
  - replace (Z.of_nat (S (length t)) =? 0)%Z with false by lia.
    rewrite map_app. cbn [map]. rewrite E. split; [reflexivity|]. tauto.
Qed.

Lemma map_text_nonempty (rs : list fmtstr) ps : map text rs = ps -> ps <> [] -> rs <> [].
Proof. intros H N E. subst rs. cbn in H. congruence. Qed.

(* f.splitlines(keepends): the same texts as str.splitlines *)
Theorem splitlines_text f keep :
  exists rs, splitlines f keep = Ok rs /\ map text rs = str_splitlines keep (text f).
Proof.
  unfold splitlines.
  destruct (split_lit_text (fun _ => false) f newline ltac:(discriminate)) as (lines & HS & HT).
  rewrite HS. cbn [bind]. unfold str_splitlines.
  assert (NE : lines <> []).
  { apply (map_text_nonempty lines _ HT). apply split_go_nonempty. }
  destruct keep.
  - (* keepends = True *)
    assert (EL : map (fun line => (len line + 1)%Z) lines =
                 map (fun p => (Z.of_nat (length p) + 1)%Z) (map text lines)).
    { rewrite map_map. apply map_ext. intros r. now rewrite len_text. }
    destruct (reslice_addnl (map text lines) [] ltac:(rewrite HT; apply split_go_nonempty)) as (ends & E1 & E2).
    cbn [length app] in E1, E2. change (Z.of_nat 0) with 0%Z in E1, E2.
    rewrite EL, E1. cbn [bind].
    rewrite (map_res_ok _ (fun p => slice_of f (Some (fst p)) (Some (snd p))))
      by (intros [a b] _; apply getitem_slice_ok).
    cbn [bind].
    set (lines2 := map (fun p => slice_of f (Some (fst p)) (Some (snd p))) (combine (0%Z :: ends) ends)).
    assert (T2 : map text lines2 = addnl (map text lines)).
    { assert (J : join_lists newline (map text lines) = text f)
        by (rewrite HT; apply join_str_split; discriminate).
      rewrite J in E2. rewrite <- E2. subst lines2. rewrite map_map. unfold zslices.
      apply map_ext. intros [a b]. apply slice_of_text. }
    destruct (finish_lines lines2) as (rs & R1 & R2 & _).
    { apply (map_text_nonempty lines2 _ T2). apply addnl_nonempty. }
    exists rs. split; [exact R1|]. rewrite R2, T2, HT. symmetry. apply lines_go_true.
  - cbn [bind]. destruct (finish_lines lines NE) as (rs & R1 & R2 & _).
    exists rs. split; [exact R1|]. rewrite R2, HT. symmetry. apply lines_go_false.
Qed.

(* ====================================================================== *)
(* 5. fmtstr(text, **atts) and shared_atts                                   *)
Lemma att_extend_no_atts a : Atts.att_extend no_atts a = a.
Proof.
  destruct a as [f g b d i u l v]. unfold Atts.att_extend, Atts.later. cbn.
  f_equal; match goal with |- match ?x with _ => _ end = _ => destruct x; reflexivity end.
Qed.

Lemma fmtstr_with_eq s a : fmtstr_with s a = [mkChunk s a].
Proof. unfold fmtstr_with, Atts.copy_with_new_atts, fmtstr_plain, plain_chunk. cbn. now rewrite att_extend_no_atts. Qed.

Lemma fmtstr_with_cells s a : cells (fmtstr_with s a) = map (fun x => (x, eff a)) s.
Proof. rewrite fmtstr_with_eq. cbn. apply app_nil_r. Qed.

Lemma fmtstr_with_text s a : text (fmtstr_with s a) = s.
Proof. rewrite fmtstr_with_eq. cbn. apply app_nil_r. Qed.

Definition states (l : list cell) : list sgr := map snd l.

Lemma states_chunk c : states (chunk_cells c) = map (fun _ => eff (c_a c)) (c_s c).
Proof. unfold states, chunk_cells. rewrite map_map. reflexivity. Qed.

Lemma forallb_const_map {X} (P : sgr -> bool) (e : sgr) (r : list X) :
  forallb P (map (fun _ => e) r) = match r with [] => true | _ :: _ => P e end.
Proof.
  induction r as [|x r IH]; [reflexivity|]. cbn [map forallb]. rewrite IH.
  destruct r; [apply andb_true_r|apply andb_diag].
Qed.

Lemma runs_agree_states {X} (eqb : X -> X -> bool) (get : atts -> option X) (get' : sgr -> option X) :
  (forall a, get' (eff a) = get a) -> forall f v,
  runs_agree eqb get f v = forallb (fun st => opt_eqb eqb (get' st) (Some v)) (states (cells f)).
Proof.
  intros H f v. induction f as [|c f IH]; [reflexivity|].
  unfold runs_agree in *. cbn [forallb]. rewrite IH. rewrite cells_cons. unfold states at 2.
  rewrite map_app, forallb_app. f_equal.
  fold (states (chunk_cells c)). rewrite states_chunk, forallb_const_map. unfold nonempty_run.
  destruct (c_s c); [reflexivity|]. now rewrite H.
Qed.

Lemma runs_agree_flag (get : atts -> option bool) (flag : sgr -> bool) :
  (forall a, flag (eff a) = on (get a)) -> forall f,
  runs_agree Bool.eqb get f true = forallb flag (states (cells f)).
Proof.
  intros H f. induction f as [|c f IH]; [reflexivity|].
  unfold runs_agree in *. cbn [forallb]. rewrite IH. rewrite cells_cons. unfold states at 2.
  rewrite map_app, forallb_app. f_equal.
  fold (states (chunk_cells c)). rewrite states_chunk, forallb_const_map. unfold nonempty_run.
  destruct (c_s c); [reflexivity|]. rewrite H. destruct (get (c_a c)) as [[|]|]; reflexivity.
Qed.

(* the runs before the first non-empty one *)
Lemma first_nonempty f : cells f <> [] ->
  exists pre c t, f = pre ++ c :: t /\ cells pre = [] /\ filter nonempty_run pre = [] /\ nonempty_run c = true.
Proof.
  induction f as [|c f IH]; intros H; [now cbn in H|].
  destruct (nonempty_run c) eqn:E.
  - exists [], c, f. repeat split; assumption.
  - assert (EC : chunk_cells c = []).
    { unfold nonempty_run in E. unfold chunk_cells. destruct (c_s c); [reflexivity|discriminate]. }
    rewrite cells_cons, EC in H. cbn [app] in H.
    destruct (IH H) as (pre & c' & t & -> & P1 & P2 & P3).
    exists (c :: pre), c', t. repeat split; try assumption.
    + rewrite cells_cons, EC, P1. reflexivity.
    + cbn [filter]. now rewrite E.
Qed.

Lemma color_eqb_refl c : color_eqb c c = true.
Proof. destruct c; reflexivity. Qed.

Lemma shared_color (get : atts -> option color) (get' : sgr -> option color) c f r :
  (forall a, get' (eff a) = get a) ->
  states (cells f) = eff (c_a c) :: r ->
  shared_field color_eqb get c f = all_color get' (states (cells f)).
Proof.
  intros H E. unfold shared_field. rewrite E. cbn [all_color]. rewrite H.
  destruct (get (c_a c)) as [v|] eqn:G; [|reflexivity].
  rewrite (runs_agree_states color_eqb get get' H), E. cbn [forallb]. rewrite H, G.
  cbn [opt_eqb]. now rewrite color_eqb_refl.
Qed.

Lemma shared_flag (get : atts -> option bool) (flag : sgr -> bool) c f r :
  (forall a, flag (eff a) = on (get a)) ->
  states (cells f) = eff (c_a c) :: r ->
  on (shared_field Bool.eqb get c f) = forallb flag (states (cells f)).
Proof.
  intros H E. unfold shared_field.
  destruct (get (c_a c)) as [[|]|] eqn:G.
  - rewrite (runs_agree_flag get flag H). destruct (forallb flag (states (cells f))); reflexivity.
  - rewrite E. cbn [forallb]. rewrite H, G. cbn. destruct (runs_agree Bool.eqb get f false); reflexivity.
  - rewrite E. cbn [forallb]. rewrite H, G. reflexivity.
Qed.

(* shared_atts, seen on the cells: exactly what every character of f shows *)
Theorem shared_atts_meet f : cells f <> [] ->
  exists sh, shared_atts f = Ok sh /\ eff sh = meet_sgr (states (cells f)).
Proof.
  intros H. destruct (first_nonempty f H) as (pre & c & t & Ef & P1 & P2 & P3).
  assert (SF : shared_first f = Ok c).
  { unfold shared_first. rewrite Ef, filter_app, P2. cbn [app filter]. now rewrite P3. }
  assert (ES : exists r, states (cells f) = eff (c_a c) :: r).
  { rewrite Ef, cells_app, P1. cbn [app]. rewrite cells_cons. unfold states. rewrite map_app.
    fold (states (chunk_cells c)). rewrite states_chunk. unfold nonempty_run in P3.
    destruct (c_s c) as [|x xs]; [discriminate|]. cbn [map app]. eexists. reflexivity. }
  destruct ES as [r ES].
  unfold shared_atts. rewrite SF. cbn [bind]. eexists. split; [reflexivity|].
  unfold eff at 1, meet_sgr. cbn [a_fg a_bg a_bold a_dark a_italic a_underline a_blink a_invert].
  f_equal.
  - apply (shared_color a_fg s_fg c f r); [reflexivity|exact ES].
  - apply (shared_color a_bg s_bg c f r); [reflexivity|exact ES].
  - apply (shared_flag a_bold s_bold c f r); [reflexivity|exact ES].
  - apply (shared_flag a_dark s_dark c f r); [reflexivity|exact ES].
  - apply (shared_flag a_italic s_italic c f r); [reflexivity|exact ES].
  - apply (shared_flag a_underline s_underline c f r); [reflexivity|exact ES].
  - apply (shared_flag a_blink s_blink c f r); [reflexivity|exact ES].
  - apply (shared_flag a_invert s_invert c f r); [reflexivity|exact ES].
Qed.

(* shared_atts raises exactly when there is no run *)
Lemma shared_atts_ok f : f <> [] -> exists sh, shared_atts f = Ok sh.
Proof.
  intros H. unfold shared_atts, shared_first.
  destruct (filter nonempty_run f) as [|c t]; [|eexists; reflexivity].
  destruct f; [congruence|]. eexists. reflexivity.
Qed.
Lemma shared_atts_no_runs : shared_atts [] = Raise IndexError.
Proof. reflexivity. Qed.
