(* curtsies.formatstring.normalize_slice: repository text = model, for all arguments *)
From Coq Require Import String Lia ZifyBool ZifyNat ZifyN.
From Curtsies Require Import Model.Base Spec.ListOps Spec.PyMini Gen.Pure Proofs.PyStep.
From Curtsies Require Import Model.Slice Proofs.PureTieBase.
Local Open Scope Z_scope.

(* ---- normalize_slice ----------------------------------------------------------- *)
Definition ov (o : option Z) : val := match o with None => VNone | Some z => VInt z end.
Definition embed_index (ix : index) : val :=
  match ix with
  | Idx i => VInt i
  | Slice a b st => VSlice (ov a) (ov b) (ov st)
  end.
Definition embed_bounds (r : res (Z * Z)) : res val :=
  match r with
  | Ok (a, b) => Ok (VSlice (VInt a) (VInt b) VNone)
  | Raise e => Raise e
  end.

Theorem normalize_slice_tie : forall length ix,
  call py_normalize_slice [VInt length; embed_index ix] = embed_bounds (normalize_slice length ix).
Proof.
  intros length ix. unfold normalize_slice, call.
  destruct ix as [i | [a|] [b|] [st|]]; zcbv.
  all: zrun.
  all: try reflexivity; try (repeat f_equal; lia); try lia.
  all: first [ solve [repeat (f_equal; try lia)]
             | fail 2 "TIE BROKEN: the repository's curtsies.formatstring.normalize_slice no longer computes what the model computes" ].
Qed.

