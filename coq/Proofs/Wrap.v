(* C11: width_aware_splitlines wraps to the column limit without losing anything.

   Part 1: the splitter loops of the model (request_loop / request / fill /
   lines_from, with fuel) compute, cell for cell and tag for tag, what the
   per-character greedy machine [wrap_items] of Spec/Columns.v computes on the
   cells with the run ends marked; the fuel is never exhausted and no assertion
   fires.  Part 2: the statements of the property, proved about [wrap_items]. *)
From Curtsies Require Import Model.Base Model.Width Model.Wrap Spec.Columns Proofs.Width.
From Coq Require Import Lia ZifyBool ZifyNat ZifyN.
Close Scope N_scope.
Local Open Scope Z_scope.

(* ---- list facts ------------------------------------------------------------ *)
Lemma skipn_length_app {A} (pre X : list A) : skipn (length pre) (pre ++ X) = X.
Proof. induction pre as [|x pre IH]; [reflexivity|exact IH]. Qed.

Lemma firstn_length_app {A} (mid X : list A) : firstn (length mid) (mid ++ X) = mid.
Proof. induction mid as [|x mid IH]; [reflexivity|cbn [length app firstn]; now rewrite IH]. Qed.

Lemma slice_str_mid (pre mid rest : str) :
  slice_str (pre ++ mid ++ rest) (length pre) (length pre + length mid) = mid.
Proof.
  unfold slice_str. rewrite skipn_length_app.
  replace (length pre + length mid - length pre)%nat with (length mid) by lia.
  apply firstn_length_app.
Qed.

Lemma tag_pad_snoc l x : tag_pad (l ++ [x]) = tag_orig l ++ [(x, Pad)].
Proof.
  induction l as [|y l IH]; [reflexivity|].
  cbn [app tag_orig map]. fold (tag_orig l). rewrite <- IH.
  cbn [tag_pad]. destruct (l ++ [x]) eqn:E; [now destruct l|reflexivity].
Qed.

Lemma erase_tag_pad l : erase (tag_pad l) = l.
Proof.
  induction l as [|x l IH]; [reflexivity|].
  cbn [tag_pad]. destruct l as [|y l']; [reflexivity|].
  change (erase ((x, Orig) :: tag_pad (y :: l'))) with (x :: erase (tag_pad (y :: l'))).
  now rewrite IH.
Qed.

Lemma erase_tag_orig l : erase (tag_orig l) = l.
Proof. unfold erase, tag_orig. rewrite map_map. cbn [fst]. apply map_id. Qed.

Lemma tag_orig_app a b : tag_orig (a ++ b) = tag_orig a ++ tag_orig b.
Proof. apply map_app. Qed.

Lemma aline_cells_app a b : aline_cells (a ++ b) = aline_cells a ++ aline_cells b.
Proof. apply flat_map_app. Qed.

Lemma aline_cells_one cp : aline_cells [cp] = achunk_cells cp.
Proof. unfold aline_cells. cbn [flat_map]. apply app_nil_r. Qed.

Section WrapProofs.
Variable wc : char -> Z.
Variable columns : Z.
Hypothesis Hcols : 2 <= columns.

Notation w012 := (w012 wc).
Notation str_ok := (str_ok wc).
Notation fs_ok := (fs_ok wc).

Lemma wcswidth_single c : w012 c -> wcswidth wc [c] = wc c.
Proof.
  intro H. cbn [wcswidth]. destruct (wc c <? 0) eqn:E; [destruct H as [H|[H|H]]; lia|].
  cbn. lia.
Qed.

(* ======================= Part 1: simulation ================================= *)
Section OneChunk.
Variable ch : chunk.
Variable its : list item.          (* what follows this run *)
Let s := c_s ch.
Let st := eff (c_a ch).

(* the cells of the rest of this run, then the end-of-run mark, then the rest *)
Definition tail_items (rest : str) : list item := map Ch (withst st rest) ++ RunEnd :: its.

(* state of the machine after a request that returned (w, new chunk): the line is
   closed if it became full *)
Definition after (L' : list acell) (wol' : Z) (rest' : str) : list (list acell) :=
  if wol' =? columns then L' :: wrap_items wc columns (tail_items rest') [] 0
  else wrap_items wc columns (tail_items rest') L' wol'.

Definition padstr (padded : bool) : str := if padded then [32%N] else [].

Lemma achunk_cells_new taken padded :
  achunk_cells (mkChunk (taken ++ padstr padded) (c_a ch), padded)
  = tag_orig (withst st taken) ++ (if padded then [((32%N, st), Pad)] else []).
Proof.
  unfold achunk_cells. cbn [fst snd]. rewrite chunk_cells_withst. cbn [c_s c_a]. unfold st.
  destruct padded; cbn [padstr].
  - rewrite withst_app. cbn [withst map]. apply tag_pad_snoc.
  - now rewrite !app_nil_r.
Qed.

(* one more cell taken into the line *)
Lemma wrap_step_fits c rest L wol :
  wol + wc c <= columns ->
  wrap_items wc columns (tail_items (c :: rest)) L wol
  = wrap_items wc columns (tail_items rest) (L ++ [((c, st), Orig)]) (wol + wc c).
Proof.
  intro H. unfold tail_items. cbn [withst map app wrap_items fst snd].
  destruct (wol + wc c >? columns) eqn:E; [lia|reflexivity].
Qed.

(* a cell that does not fit closes the line and opens the next one *)
Lemma wrap_step_over c rest L wol :
  w012 c -> wol + wc c > columns ->
  wrap_items wc columns (tail_items (c :: rest)) L wol
  = (if wol <? columns then L ++ [((32%N, st), Pad)] else L)
    :: wrap_items wc columns (tail_items (c :: rest)) [] 0.
Proof.
  intros Hc H. unfold tail_items. cbn [withst map app wrap_items fst snd].
  destruct (wol + wc c >? columns) eqn:E; [|lia].
  destruct (0 + wc c >? columns) eqn:E2; [destruct Hc as [Hw|[Hw|Hw]]; lia|].
  reflexivity.
Qed.

Lemma wrap_run_end L wol :
  wrap_items wc columns (tail_items []) L wol
  = if wol =? columns then L :: wrap_items wc columns its [] 0
    else wrap_items wc columns its L wol.
Proof. reflexivity. Qed.

Section OneRequest.
Variable pre : str.                (* s[:start_offset] *)
Variable sp : splitter.
Hypothesis Hsp_chunk : sp_chunk sp = ch.
Variable wol : Z.                  (* width_of_line when request is called *)
Hypothesis Hwol : 0 <= wol < columns.
Variable L0 : list acell.          (* cells of chunks_of_line when request is called *)
Let mw := columns - wol.           (* max_width *)

(* the `while True` of request.  [mid] = s[start_offset:i] *)
Lemma request_loop_sim : forall rest mid width,
  s = pre ++ mid ++ rest -> rest <> [] -> str_ok rest ->
  0 <= width <= mw -> (mid = [] -> width = 0) ->
  exists taken rest' w padded iw',
    mid ++ rest = taken ++ rest' /\
    request_loop wc sp mw (length pre) rest (length pre + length mid) width
      = Ok (mkSplitter ch (length pre + length taken) iw',
            Some (w, mkChunk (taken ++ padstr padded) (c_a ch), padded)) /\
    0 <= w /\ wol + w <= columns /\
    (taken = [] -> padded = true /\ w = 1 /\ wol + w = columns) /\
    wrap_items wc columns (tail_items rest) (L0 ++ tag_orig (withst st mid)) (wol + width)
      = after (L0 ++ achunk_cells (mkChunk (taken ++ padstr padded) (c_a ch), padded)) (wol + w) rest'.
Proof.
  induction rest as [|c rest IH]; intros mid width Hs Hne Hok Hwidth Hmid; [congruence|].
  apply str_ok_cons in Hok as [Hc Hok].
  cbn [request_loop]. rewrite Hsp_chunk. fold s. rewrite (wcswidth_single c Hc).
  destruct (width + wc c >? mw) eqn:Eover.
  - (* the character does not fit *)
    destruct (width <? mw) eqn:Eshort.
    + (* one column short: it is a wide character, pad *)
      assert (Hw2 : wc c = 2) by (destruct Hc as [Hw|[Hw|Hw]]; lia).
      assert (Hmw : width + 1 = mw) by lia.
      replace (width + 1 =? mw) with true by lia. replace (wc c =? 2) with true by lia. cbn [negb].
      exists mid, (c :: rest), (width + 1), true. eexists.
      split; [reflexivity|]. split.
      { rewrite Hs, slice_str_mid. reflexivity. }
      split; [lia|]. split; [unfold mw in *; lia|]. split.
      { intro Hnil. specialize (Hmid Hnil). unfold mw in *. split; [reflexivity|lia]. }
      rewrite wrap_step_over by (assumption || unfold mw in *; lia).
      unfold after. replace (wol + (width + 1) =? columns) with true by (unfold mw in *; lia).
      replace (wol + width <? columns) with true by (unfold mw in *; lia).
      rewrite achunk_cells_new, app_assoc. reflexivity.
    + (* the line is full *)
      assert (Hfull : width = mw) by lia.
      exists mid, (c :: rest), width, false. eexists.
      split; [reflexivity|]. split.
      { rewrite Hs, slice_str_mid. cbn [padstr]. rewrite app_nil_r. reflexivity. }
      split; [lia|]. split; [unfold mw in *; lia|]. split.
      { intro Hnil. specialize (Hmid Hnil). unfold mw in *. lia. }
      rewrite wrap_step_over by (assumption || unfold mw in *; lia).
      unfold after. replace (wol + width =? columns) with true by (unfold mw in *; lia).
      replace (wol + width <? columns) with false by (unfold mw in *; lia).
      rewrite achunk_cells_new, app_nil_r. reflexivity.
  - (* the character fits *)
    assert (Hlen : length s = (length pre + length mid + 1 + length rest)%nat).
    { rewrite Hs, !app_length. cbn [length]. lia. }
    assert (Hs' : s = pre ++ (mid ++ [c]) ++ rest) by (rewrite Hs, <- app_assoc; reflexivity).
    assert (Hlen' : (length pre + length mid + 1 = length pre + length (mid ++ [c]))%nat)
      by (rewrite app_length; cbn [length]; lia).
    rewrite wrap_step_fits by (unfold mw in *; lia).
    assert (HL : (L0 ++ tag_orig (withst st mid)) ++ [((c, st), Orig)]
                 = L0 ++ tag_orig (withst st (mid ++ [c]))).
    { rewrite withst_app, tag_orig_app, app_assoc. reflexivity. }
    rewrite HL.
    destruct rest as [|c' rest'].
    + (* i + 1 == length: end of the run *)
      replace (Nat.eqb (length pre + length mid + 1) (length s)) with true
        by (symmetry; apply Nat.eqb_eq; cbn [length] in Hlen; lia).
      exists (mid ++ [c]), [], (width + wc c), false. eexists.
      split; [now rewrite <- app_assoc, app_nil_r|]. split.
      { rewrite Hlen', Hs', slice_str_mid. cbn [padstr]. rewrite app_nil_r. reflexivity. }
      split; [destruct Hc as [Hw|[Hw|Hw]]; lia|]. split; [unfold mw in *; lia|]. split.
      { intro Hnil. now destruct mid. }
      rewrite wrap_run_end. unfold after. rewrite !wrap_run_end.
      rewrite achunk_cells_new, app_nil_r, Z.add_assoc.
      destruct (wol + width + wc c =? columns) eqn:Efull.
      * replace (0 =? columns) with false by lia. reflexivity.
      * reflexivity.
    + (* otherwise attempt to add the next character *)
      replace (Nat.eqb (length pre + length mid + 1) (length s)) with false
        by (symmetry; apply Nat.eqb_neq; cbn [length] in Hlen; lia).
      rewrite Hlen'.
      destruct (IH (mid ++ [c]) (width + wc c)) as (taken & rest2 & w & padded & iw' & H1 & H2 & H3 & H4 & H5 & H6);
        try assumption; try congruence.
      { destruct Hc as [Hw|[Hw|Hw]]; lia. }
      { intro Hnil. now destruct mid. }
      exists taken, rest2, w, padded, iw'.
      split; [rewrite <- H1, <- app_assoc; reflexivity|]. split; [exact H2|].
      split; [assumption|]. split; [assumption|]. split; [assumption|].
      rewrite <- H6, Z.add_assoc. reflexivity.
Qed.

End OneRequest.

(* ChunkSplitter.request called with columns - width_of_line on a splitter that
   has not reached the end of its run *)
Lemma request_sim pre rest iw wol L0 :
  s = pre ++ rest -> rest <> [] -> str_ok rest -> 0 <= wol < columns ->
  exists taken rest' w padded iw',
    rest = taken ++ rest' /\
    request wc (mkSplitter ch (length pre) iw) (columns - wol)
      = Ok (mkSplitter ch (length (pre ++ taken)) iw',
            Some (w, mkChunk (taken ++ padstr padded) (c_a ch), padded)) /\
    0 <= w /\ wol + w <= columns /\
    (taken = [] -> 0 < wol /\ wol + w = columns) /\
    (taken ++ padstr padded <> []) /\
    wrap_items wc columns (tail_items rest) L0 wol
      = after (L0 ++ achunk_cells (mkChunk (taken ++ padstr padded) (c_a ch), padded)) (wol + w) rest'.
Proof.
  intros Hs Hne Hok Hwol.
  unfold request. cbn [sp_off sp_chunk]. fold s.
  replace (columns - wol <? 1) with false by lia.
  replace (Nat.eqb (length pre) (length s)) with false.
  2:{ symmetry. apply Nat.eqb_neq. rewrite Hs, app_length. destruct rest; [congruence|cbn [length]; lia]. }
  replace (skipn (length pre) s) with rest by (rewrite Hs, skipn_length_app; reflexivity).
  destruct (request_loop_sim pre (mkSplitter ch (length pre) iw) eq_refl wol Hwol L0 rest [] 0)
    as (taken & rest' & w & padded & iw' & H1 & H2 & H3 & H4 & H5 & H6); try assumption; try lia; try reflexivity.
  exists taken, rest', w, padded, iw'.
  split; [exact H1|]. split.
  { cbn [length] in H2. rewrite Nat.add_0_r in H2. rewrite H2, app_length. reflexivity. }
  split; [assumption|]. split; [assumption|]. split.
  { intro Hnil. destruct (H5 Hnil) as (Hp & Hw1 & Hfull). lia. }
  split.
  { destruct taken; [destruct (H5 eq_refl) as [-> _]; discriminate|discriminate]. }
  cbn [withst map tag_orig app] in H6. rewrite app_nil_r, Z.add_0_r in H6. exact H6.
Qed.


(* chunks_of_line is tested as a list of chunks (`if chunks_of_line:`), the
   machine tests the cells: every chunk a request returns is non-empty *)
Definition good (col : aline) : Prop := col = [] \/ aline_cells col <> [].

Lemma erase_achunk_cells cp : erase (achunk_cells cp) = chunk_cells (fst cp).
Proof. unfold achunk_cells. destruct (snd cp); [apply erase_tag_pad|apply erase_tag_orig]. Qed.

Lemma achunk_cells_nonempty c b : c_s c <> [] -> achunk_cells (c, b) <> [].
Proof.
  intros Hne Hnil. apply (f_equal erase) in Hnil. rewrite erase_achunk_cells in Hnil.
  cbn [fst erase map] in Hnil. unfold chunk_cells in Hnil. destruct (c_s c); [congruence|discriminate].
Qed.

Lemma good_snoc col c b : c_s c <> [] -> good (col ++ [(c, b)]).
Proof.
  intro Hne. right. rewrite aline_cells_app, aline_cells_one. intro H.
  apply app_eq_nil in H as [_ H]. now apply (achunk_cells_nonempty c b).
Qed.

(* the inner `while True` of _width_aware_splitlines on the rest of one run;
   [k] is the continuation after `break` (the remaining runs) *)
Section Fill.
Variable k : aline -> Z -> outcome.
Hypothesis Hk : forall col wol, 0 <= wol < columns -> good col ->
  exists ls, k col wol = Some (Ok ls) /\
             map aline_cells ls = wrap_items wc columns its (aline_cells col) wol.

Lemma fill_sim : forall fuel pre rest iw col wol,
  s = pre ++ rest -> str_ok rest -> 0 <= wol < columns -> good col ->
  (2 * length rest + (if (0 <? wol)%Z then 1 else 0) + 1 <= fuel)%nat ->
  exists ls, fill wc k columns fuel (mkSplitter ch (length pre) iw) col wol = Some (Ok ls) /\
             map aline_cells ls = wrap_items wc columns (tail_items rest) (aline_cells col) wol.
Proof.
  induction fuel as [|fuel IH]; intros pre rest iw col wol Hs Hok Hwol Hgood Hfuel; [lia|].
  cbn [fill].
  destruct rest as [|c0 r0] eqn:Erest.
  - (* the run is exhausted: request returns None, break *)
    unfold request. cbn [sp_off sp_chunk]. fold s.
    replace (columns - wol <? 1) with false by lia.
    replace (Nat.eqb (length pre) (length s)) with true
      by (symmetry; apply Nat.eqb_eq; rewrite Hs, app_nil_r; reflexivity).
    rewrite wrap_run_end. replace (wol =? columns) with false by lia.
    now apply Hk.
  - rewrite <- Erest in *. assert (Hne : rest <> []) by (rewrite Erest; discriminate). clear Erest c0 r0.
    destruct (request_sim pre rest iw wol (aline_cells col) Hs Hne Hok Hwol)
      as (taken & rest' & w & padded & iw' & H1 & H2 & H3 & H4 & H5 & H6 & H7).
    rewrite H2, H7. unfold after.
    assert (Hs' : s = (pre ++ taken) ++ rest') by (rewrite Hs, H1, app_assoc; reflexivity).
    assert (Hok' : str_ok rest') by (rewrite H1 in Hok; now apply str_ok_app in Hok).
    assert (Hlen : length rest = (length taken + length rest')%nat) by (rewrite H1; apply app_length).
    assert (Hcells : aline_cells (col ++ [(mkChunk (taken ++ padstr padded) (c_a ch), padded)])
                     = aline_cells col ++ achunk_cells (mkChunk (taken ++ padstr padded) (c_a ch), padded))
      by (rewrite aline_cells_app, aline_cells_one; reflexivity).
    destruct (wol + w =? columns) eqn:Efull.
    + (* the line is full: yield *)
      destruct (IH (pre ++ taken) rest' iw' [] 0 Hs' Hok') as (ls & Hls & Hmap);
        [lia|now left| |].
      { replace (0 <? 0) with false by lia.
        destruct taken as [|t0 taken']; [destruct (H5 eq_refl); replace (0 <? wol) with true in Hfuel by lia|];
          cbn [length] in *; lia. }
      rewrite Hls. cbn [yield]. eexists. split; [reflexivity|].
      cbn [map]. rewrite Hcells, Hmap. reflexivity.
    + destruct (IH (pre ++ taken) rest' iw' (col ++ [(mkChunk (taken ++ padstr padded) (c_a ch), padded)])
                   (wol + w) Hs' Hok') as (ls & Hls & Hmap); [lia|now apply good_snoc| |].
      { destruct taken as [|t0 taken']; [destruct (H5 eq_refl); lia|].
        cbn [length] in *. destruct (0 <? wol + w); lia. }
      rewrite Hls. eexists. split; [reflexivity|].
      rewrite Hmap, Hcells. reflexivity.
Qed.

End Fill.
End OneChunk.

Lemma items_of_cons ch f : items_of (ch :: f) = tail_items ch (items_of f) (c_s ch).
Proof.
  unfold items_of, tail_items. cbn [flat_map]. rewrite chunk_cells_withst, <- app_assoc. reflexivity.
Qed.

(* the for loop over the runs *)
Lemma lines_from_sim : forall f col wol, fs_ok f -> 0 <= wol < columns -> good col ->
  exists ls, lines_from wc columns f col wol = Some (Ok ls) /\
             map aline_cells ls = wrap_items wc columns (items_of f) (aline_cells col) wol.
Proof.
  induction f as [|ch f IH]; intros col wol Hok Hwol Hgood.
  - cbn [lines_from items_of flat_map wrap_items]. eexists. split; [reflexivity|].
    destruct col as [|cp col]; [reflexivity|].
    destruct Hgood as [H|H]; [discriminate|]. cbn [map].
    destruct (aline_cells (cp :: col)); [congruence|reflexivity].
  - apply fs_ok_cons in Hok as [Hc Hok]. cbn [lines_from]. rewrite items_of_cons.
    assert (Hk : forall col wol, 0 <= wol < columns -> good col ->
              exists ls, (fun col wol => lines_from wc columns f col wol) col wol = Some (Ok ls) /\
                         map aline_cells ls = wrap_items wc columns (items_of f) (aline_cells col) wol)
      by (intros; now apply IH).
    apply (fill_sim ch (items_of f) _ Hk (2 * length (c_s ch) + 2) [] (c_s ch) 0 col wol);
      try assumption; try reflexivity.
    destruct (0 <? wol); lia.
Qed.

(* the whole of width_aware_splitlines: for columns >= 2 and characters of width
   0, 1 or 2 the fuel suffices, nothing raises, and the annotated lines are those
   of the greedy machine on the cells with run ends marked *)
Theorem splitlines_sim f : fs_ok f ->
  exists ls, splitlines_ann wc f columns = Some (Ok ls) /\
             map aline_cells ls = wrap_runs wc columns f.
Proof.
  intro Hok. unfold splitlines_ann.
  replace (columns <? 2) with false by lia.
  pose proof (fs_ok_cells wc f Hok) as Hok'.
  rewrite <- map_fst_cells, (wcswidth_cells wc) by assumption.
  pose proof (wsum_nonneg wc _ Hok') as Hn.
  destruct (wsum wc (cells f) =? -1) eqn:E; [lia|].
  destruct f as [|ch f]; [exists []; split; reflexivity|].
  apply (lines_from_sim (ch :: f) [] 0); [assumption|lia|now left].
Qed.


(* ======================= Part 2: the machine meets the property ============= *)
Definition item_cells (its : list item) : list cell :=
  flat_map (fun it => match it with Ch x => [x] | RunEnd => [] end) its.
Definition items_ok (its : list item) : Prop := str_ok (map fst (item_cells its)).

Lemma items_ok_ch x its : items_ok (Ch x :: its) -> w012 (fst x) /\ items_ok its.
Proof. unfold items_ok. cbn [item_cells flat_map app map]. apply str_ok_cons. Qed.

Lemma item_cells_app a b : item_cells (a ++ b) = item_cells a ++ item_cells b.
Proof. apply flat_map_app. Qed.

Lemma item_cells_map_ch l : item_cells (map Ch l) = l.
Proof. induction l as [|x l IH]; [reflexivity|]. cbn [map item_cells flat_map app]. now f_equal. Qed.

Lemma item_cells_items_of f : item_cells (items_of f) = cells f.
Proof.
  induction f as [|ch f IH]; [reflexivity|].
  unfold items_of. cbn [flat_map]. fold (items_of f).
  rewrite !item_cells_app, item_cells_map_ch, IH. cbn [item_cells flat_map]. now rewrite app_nil_r.
Qed.

(* -- nothing is lost, nothing but paddings is added -- *)
Definition origs (l : list acell) : list cell := erase (filter is_orig l).

Lemma origs_app a b : origs (a ++ b) = origs a ++ origs b.
Proof. unfold origs, erase. now rewrite filter_app, map_app. Qed.

Lemma wrap_conserves : forall its line wol,
  origs (concat (wrap_items wc columns its line wol)) = origs line ++ item_cells its.
Proof.
  induction its as [|[x|] its IH]; intros line wol; cbn [wrap_items item_cells flat_map].
  - destruct line; cbn [concat]; now rewrite ?app_nil_r.
  - destruct (wol + wc (fst x) >? columns).
    + cbn [concat]. rewrite origs_app, IH.
      destruct (wol <? columns); rewrite ?origs_app; cbn [origs filter is_orig snd erase map fst app];
        now rewrite ?app_nil_r.
    + rewrite IH, origs_app. cbn [origs filter is_orig snd erase map fst app]. now rewrite <- app_assoc.
  - destruct (wol =? columns).
    + cbn [concat]. rewrite origs_app, IH. reflexivity.
    + apply IH.
Qed.

(* -- the paddings -- *)
Lemma wrap_head : forall its x0 l wol,
  exists l' more, wrap_items wc columns its (x0 :: l) wol = (x0 :: l') :: more.
Proof.
  induction its as [|[x|] its IH]; intros x0 l wol; cbn [wrap_items].
  - now exists l, [].
  - destruct (wol + wc (fst x) >? columns).
    + destruct (wol <? columns); eexists; eexists; reflexivity.
    + apply (IH x0 (l ++ [(x, Orig)])).
  - destruct (wol =? columns); [now exists l; eexists|apply IH].
Qed.

Lemma no_pad_nil : no_pad [].
Proof. intros x []. Qed.

Lemma no_pad_snoc l x : no_pad l -> no_pad (l ++ [(x, Orig)]).
Proof.
  intros H y Hy. apply in_app_or in Hy as [Hy|[<-|[]]]; [now apply H|reflexivity].
Qed.

Lemma wrap_pads : forall its line wol, items_ok its -> no_pad line ->
  pads_ok wc (wrap_items wc columns its line wol).
Proof.
  induction its as [|[x|] its IH]; intros line wol Hok Hnp; cbn [wrap_items].
  - destruct line; cbn [pads_ok]; [exact I|]. split; [now left|exact I].
  - apply items_ok_ch in Hok as [Hx Hok].
    destruct (wol + wc (fst x) >? columns) eqn:Eover.
    + cbn [pads_ok]. split; [|apply IH; [assumption|apply (no_pad_snoc [] x), no_pad_nil]].
      destruct (wol <? columns) eqn:Eshort; [|now left].
      right. exists line, (snd x). split; [reflexivity|]. split; [assumption|].
      destruct (wrap_head its (x, Orig) [] (wc (fst x))) as (l' & more & Hhd).
      pose proof (f_equal (@hd_error _) Hhd) as Hhd'. cbn [hd_error] in Hhd'.
      exists (fst x), l'. split; [|destruct Hx as [Hw|[Hw|Hw]]; lia].
      etransitivity; [exact Hhd'|]. now rewrite <- surjective_pairing.
    + apply IH; [assumption|now apply no_pad_snoc].
  - destruct (wol =? columns).
    + cbn [pads_ok]. split; [now left|]. apply IH; [assumption|apply no_pad_nil].
    + now apply IH.
Qed.

(* -- the widths -- *)
Section Widths.
Hypothesis Hsp : wc 32%N = 1.

Definition lw (l : list acell) : Z := line_width wc (erase l).

Lemma lw_app a b : lw (a ++ b) = lw a + lw b.
Proof.
  unfold lw, line_width, erase. rewrite map_app, (colcells_of_app wc), app_length, Nat2Z.inj_add. reflexivity.
Qed.

Lemma lw_one x t : w012 (fst x) -> lw [(x, t)] = wc (fst x).
Proof.
  intro H. unfold lw, line_width, erase. cbn [map fst]. unfold colcells_of. cbn [flat_map].
  rewrite app_nil_r. now apply expand_length.
Qed.

Lemma widths_ok_cons l r :
  l <> [] -> line_width wc l = columns -> widths_ok wc columns r -> widths_ok wc columns (l :: r).
Proof. intros H1 H2 H3. destruct r; cbn [widths_ok]; repeat split; auto; lia. Qed.

Lemma lw_nil_zero l : lw l <> 0 -> erase l <> [].
Proof. intros H Hnil. apply H. unfold lw. now rewrite Hnil. Qed.

Lemma wrap_widths : forall its line wol, items_ok its -> wol = lw line -> wol <= columns ->
  widths_ok wc columns (map erase (wrap_items wc columns its line wol)).
Proof.
  induction its as [|[x|] its IH]; intros line wol Hok Hlw Hle; cbn [wrap_items].
  - destruct line as [|a line]; [exact I|]. cbn [map widths_ok]. split; [discriminate|]. fold (lw (a :: line)). lia.
  - apply items_ok_ch in Hok as [Hx Hok].
    assert (Hx1 : lw [(x, Orig)] = wc (fst x)) by now apply lw_one.
    destruct (wol + wc (fst x) >? columns) eqn:Eover.
    + cbn [map]. apply widths_ok_cons.
      * destruct (wol <? columns) eqn:Eshort.
        -- unfold erase. rewrite map_app. intro H. apply app_eq_nil in H as [_ H]. discriminate.
        -- apply lw_nil_zero. lia.
      * destruct (wol <? columns) eqn:Eshort.
        -- fold (lw (line ++ [((32%N, snd x), Pad)])). rewrite lw_app, lw_one by (cbn [fst]; right; left; exact Hsp).
           cbn [fst]. rewrite Hsp. destruct Hx as [Hw|[Hw|Hw]]; lia.
        -- fold (lw line). lia.
      * apply IH; [assumption|now rewrite Hx1|destruct Hx as [Hw|[Hw|Hw]]; lia].
    + apply IH; [assumption|rewrite lw_app, Hx1; lia|lia].
  - destruct (wol =? columns) eqn:Efull.
    + cbn [map]. apply widths_ok_cons.
      * apply lw_nil_zero. lia.
      * fold (lw line). lia.
      * apply IH; [assumption|reflexivity|lia].
    + now apply IH.
Qed.

End Widths.

(* ======================= the statements about the model ===================== *)
Lemma erase_aline_cells l : erase (aline_cells l) = cells (line_fs l).
Proof.
  induction l as [|cp l IH]; [reflexivity|].
  unfold aline_cells, line_fs, erase. cbn [flat_map map cells]. rewrite map_app.
  f_equal; [apply erase_achunk_cells|exact IH].
Qed.

Lemma fs_ok_items_ok f : fs_ok f -> items_ok (items_of f).
Proof. intro H. unfold items_ok. rewrite item_cells_items_of. now apply fs_ok_cells. Qed.

(* termination and absence of exceptions; the observable result *)
Theorem splitlines_total f : fs_ok f ->
  exists ls, splitlines_ann wc f columns = Some (Ok ls) /\
             splitlines wc f columns = Some (Ok (map line_fs ls)).
Proof.
  intro Hok. destruct (splitlines_sim f Hok) as (ls & Hls & _).
  exists ls. split; [assumption|]. unfold splitlines. now rewrite Hls.
Qed.

Theorem splitlines_conserves f : fs_ok f ->
  exists ls, splitlines_ann wc f columns = Some (Ok ls) /\
             origs (concat (map aline_cells ls)) = cells f.
Proof.
  intro Hok. destruct (splitlines_sim f Hok) as (ls & Hls & Hmap).
  exists ls. split; [assumption|]. rewrite Hmap. unfold wrap_runs.
  rewrite wrap_conserves, item_cells_items_of. reflexivity.
Qed.

Theorem splitlines_widths f : wc 32%N = 1 -> fs_ok f ->
  exists ls, splitlines_ann wc f columns = Some (Ok ls) /\
             widths_ok wc columns (map (fun l => cells (line_fs l)) ls).
Proof.
  intros Hsp Hok. destruct (splitlines_sim f Hok) as (ls & Hls & Hmap).
  exists ls. split; [assumption|].
  replace (map (fun l => cells (line_fs l)) ls) with (map erase (map aline_cells ls)).
  2:{ rewrite map_map. apply map_ext. intro l. apply erase_aline_cells. }
  rewrite Hmap. unfold wrap_runs.
  apply wrap_widths; [assumption|now apply fs_ok_items_ok|reflexivity|lia].
Qed.

Theorem splitlines_pads f : fs_ok f ->
  exists ls, splitlines_ann wc f columns = Some (Ok ls) /\
             pads_ok wc (map aline_cells ls).
Proof.
  intro Hok. destruct (splitlines_sim f Hok) as (ls & Hls & Hmap).
  exists ls. split; [assumption|]. rewrite Hmap. unfold wrap_runs.
  apply wrap_pads; [now apply fs_ok_items_ok|apply no_pad_nil].
Qed.

End WrapProofs.
