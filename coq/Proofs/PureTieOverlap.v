(* curtsies.formatstring.interval_overlap: repository text = model, for all arguments *)
From Coq Require Import String Lia ZifyBool ZifyNat ZifyN.
From Curtsies Require Import Model.Base Spec.ListOps Spec.PyMini Gen.Pure Proofs.PyStep.
From Curtsies Require Import Model.Width Proofs.PureTieBase.
Local Open Scope Z_scope.

(* ---- interval_overlap -------------------------------------------------------- *)
Theorem interval_overlap_tie : forall a b x y,
  call py_interval_overlap [VInt a; VInt b; VInt x; VInt y] = Ok (VInt (interval_overlap a b x y)).
Proof.
  intros a b x y. unfold interval_overlap, call.
  zcbv. zrun.
  all: first [ f_equal; f_equal; lia
             | fail 2 "TIE BROKEN: the repository's curtsies.formatstring.interval_overlap no longer computes what the model computes" ].
Qed.

