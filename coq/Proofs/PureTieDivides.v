(* curtsies.formatstring.FmtStr.divides: repository text = model, for all FmtStrs *)
From Coq Require Import String Lia ZifyBool ZifyNat ZifyN.
From Curtsies Require Import Model.Base Spec.ListOps Spec.PyMini Gen.Pure Gen.PureFmt Spec.PyEnvFmt
  Model.Slice Model.Splice Proofs.PyStep Proofs.PureTieBase Proofs.PureTieFmtBase.
Local Open Scope Z_scope.

(* the loop of the model as a step function; the state is the list built so far, given as
   (all but the last entry, the last entry): the body reads acc[-1] *)
Definition dv_step (st : list Z * Z) (ch : chunk) : lres (list Z * Z) :=
  LNext (fst st ++ [snd st], snd st + chunk_len ch).

Lemma divides_loop_model : forall chunks pre lst,
  exists pre' lst', loop_model dv_step (pre, lst) chunks = Ok (pre', lst')
                    /\ pre' ++ [lst'] = pre ++ divides_from lst chunks.
Proof.
  induction chunks as [|ch chunks IH]; intros pre lst.
  - exists pre, lst. split; reflexivity.
  - cbn [loop_model dv_step fst snd divides_from].
    destruct (IH (pre ++ [lst]) (lst + chunk_len ch)) as [pre' [lst' [H1 H2]]].
    exists pre', lst'. split; [exact H1|]. rewrite H2, <- app_assoc. reflexivity.
Qed.

Theorem divides_tie : forall f,
  call_in ctxF0 py_FmtStr_divides [embed_fmtstr f] = Ok (VList (map VInt (divides f))).
Proof.
  not_a_stub py_FmtStr_divides.
  intro f. unfold call_in. pcbv.
  frun ltac:(idtac).
  match goal with
  | |- context [for_loop ?c ?t ?body _ ?r0] =>
      let an := eval cbv in (first_mutated body) in
      pose (R := fun (st : list Z * Z) (r : env) =>
                   lookup an r = Some (VList (map VInt (fst st ++ [snd st]))))
  end.
  loop_with dv_step R.
  - intros [pre lst] ch r Ha. hnf in Ha. cbn [fst snd] in Ha.
    fcbv.
    match goal with |- round_post ?R' ?m ?o => remember (round_post R' m) as K eqn:HK end.
    frun ltac:(idtac).
    all: subst K; unfold dv_step; cbn [fst snd].
    all: first [ close_round
               | fail 1 "TIE BROKEN: the repository's curtsies.formatstring.FmtStr.divides no longer computes what the model computes (loop body)" ].
  - after_loop HL (@nil Z, 0).
    all: try contradiction.
    all: destruct (divides_loop_model f [] 0) as [pre' [lst' [Hm Hd]]]; rewrite Hm in HL0; try discriminate.
    destruct HL0 as [s [Hs Ha]]. injection Hs as <-. hnf in Ha. cbn [fst snd] in Ha.
    frun ltac:(idtac).
    unfold divides. rewrite Hd.
    first [ same_result
          | fail 1 "TIE BROKEN: the repository's curtsies.formatstring.FmtStr.divides no longer computes what the model computes" ].
Qed.
