(* curtsies.formatstring.FmtStr.__radd__: repository text = model (Model/Slice.v [radd]), for all FmtStrs
   and all operands that are a str or a FmtStr *)
From Coq Require Import String Lia ZifyBool ZifyNat ZifyN.
From Curtsies Require Import Model.Base Model.Splice Spec.ListOps Spec.PyMini Gen.Pure Gen.PureFmt Spec.PyEnvFmt
  Model.Slice Proofs.PyStep Proofs.PureTieBase Proofs.PureTieFmtBase Proofs.PureTieAddBase.
Local Open Scope Z_scope.

Theorem radd_tie : forall f other,
  call_in ctxF3 py_FmtStr_radd [embed_fmtstr f; embed_operand other] = Ok (embed_fmtstr (Slice.radd f other)).
Proof.
  not_a_stub py_FmtStr_radd.
  intros f other. unfold call_in.
  destruct other as [s|g]; cbn [embed_operand]; pcbv.
  all: frun ltac:(idtac; gen_step).
  all: first [ same_runs
             | fail 1 "TIE BROKEN: the repository's curtsies.formatstring.FmtStr.__radd__ no longer computes what the model computes" ].
Qed.
