(* curtsies.formatstring.FmtStr.setitem: repository text = model (Model/Splice.v [setitem]);
   self.setslice_with_length is the generated tree, replaced here by its own tie theorem *)
From Coq Require Import String Lia ZifyBool ZifyNat ZifyN.
From Curtsies Require Import Model.Base Model.Splice Spec.ListOps Spec.PyMini Gen.Pure Gen.PureFmt Spec.PyEnvFmt
  Model.Slice Proofs.PyStep Proofs.PureTieBase Proofs.PureTieFmtBase Proofs.PureTieSplice Proofs.PureTieCallBase Proofs.PureTieSetslice.
Local Open Scope Z_scope.

(* ---- setitem ------------------------------------------------------------------------------------------------ *)
Ltac setslice_step :=
  match goal with
  | |- context [sem_FmtStr_setslice_with_length
                  (cons (VRec ?c (cons (?n, VList (map ?e ?f)) nil))
                        (cons (VInt ?a) (cons (VInt ?b) (cons ?v (cons (VInt ?k) nil)))))] =>
      let o := operand_of v in
      change (sem_FmtStr_setslice_with_length [VRec c [(n, VList (map e f))]; VInt a; VInt b; v; VInt k])
        with (call_in ctxF4 py_FmtStr_setslice_with_length [embed_fmtstr f; VInt a; VInt b; embed_operand o; VInt k]);
      rewrite (setslice_tie f a b o k) by assumption
  end.

Theorem setitem_tie : forall f i fs,
  operand_plain fs = true ->
  call_in ctxF5 py_FmtStr_setitem [embed_fmtstr f; VInt i; embed_operand fs] = embed_fs_res (setitem f i fs).
Proof.
  not_a_stub py_FmtStr_setitem.
  intros f i fs Hplain. unfold call_in. pcbv.
  frun ltac:(idtac; setslice_step).
  unfold setitem.
  first [ destruct (setslice_with_length f i (i + 1) fs (len f)); reflexivity
        | fail 1 "TIE BROKEN: the repository's curtsies.formatstring.FmtStr.setitem no longer computes what the model computes" ].
Qed.
