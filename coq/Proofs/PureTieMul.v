(* curtsies.formatstring.FmtStr.__mul__: repository text = model (Model/Slice.v [mul]), for all FmtStrs and
   all ints (zero and negative ones included: no copies).  The text is
       sum((self for _ in range(other)), FmtStr())
   : the `+` of sum() between two FmtStrs is the generated FmtStr.__add__, replaced here by its own tie
   theorem (Proofs/PureTieAdd.v).  (Any other operand: the text answers NotImplemented, which is outside
   the subset -- no theorem.) *)
From Coq Require Import String Lia ZifyBool ZifyNat ZifyN.
From Curtsies Require Import Model.Base Model.Splice Spec.ListOps Spec.PyMini Gen.Pure Gen.PureFmt Spec.PyEnvFmt
  Model.Slice Proofs.PyStep Proofs.PureTieBase Proofs.PureTieFmtBase Proofs.PureTieAddBase Proofs.PureTieAdd.
Local Open Scope Z_scope.

(* sum() over a generator whose every element is the same FmtStr: the model's loop.  [c] is any context in
   which `+` with a FmtStr on the left runs the generated __add__ *)
Lemma sum_items_copies : forall {X} (c : ctx) (G : res val -> res val) (H : X -> res val) (f : fmtstr),
  (forall a v, bin_in c BAdd (embed_fmtstr a) v = sem_FmtStr_add [embed_fmtstr a; v]) ->
  (forall x, G (H x) = Ok (embed_fmtstr f)) ->
  forall (l : list X) acc,
    sum_items c (map G (map H l)) (embed_fmtstr acc) = Ok (embed_fmtstr (sum_loop f (List.length l) acc)).
Proof.
  intros X c G H f Hadd HG l. induction l as [|x l IH]; intro acc; [reflexivity|].
  cbn [map sum_items List.length sum_loop]. rewrite HG, Hadd.
  change (sem_FmtStr_add [embed_fmtstr acc; embed_fmtstr f])
    with (call_in ctxF3 py_FmtStr_add [embed_fmtstr acc; embed_operand (OFmt f)]).
  rewrite (add_tie acc (OFmt f)). apply IH.
Qed.

(* everything is computed, except: the statement evaluator (unfolded one statement at a time), the loop of
   sum(), the generated methods of the context (replaced by their tie theorems), the list of range(), and
   the embedding of the model's values *)
Ltac mcbv :=
  cbv - [exec exec_block sum_items sem_FmtStr_add sem_FmtStr_radd sem_FmtStr_splice sem_FmtStr_divides
         sem_normalize_slice sem_interval_overlap sem_Chunk_s sem_Chunk_atts sem_Chunk_len
         embed_fmtstr List.map List.seq Z.to_nat Z.of_nat Slice.mul sum_loop].

Theorem mul_tie : forall f n,
  call_in ctxF4 py_FmtStr_mul [embed_fmtstr f; VInt n] = Ok (embed_fmtstr (Slice.mul f n)).
Proof.
  not_a_stub py_FmtStr_mul.
  intros f n. unfold call_in. mcbv.
  repeat (py_unfold1; mcbv).
  (* the loop of sum(): its start value is FmtStr() = no runs *)
  try match goal with
      | |- context [sum_items ?c (map ?G (map ?H ?l)) ?start] =>
          change start with (embed_fmtstr []);
          rewrite (sum_items_copies c G H f) by (intros; reflexivity)
      end.
  mcbv. rewrite ?seq_length.
  first [ reflexivity
        | fail 1 "TIE BROKEN: the repository's curtsies.formatstring.FmtStr.__mul__ no longer computes what the model computes" ].
Qed.
