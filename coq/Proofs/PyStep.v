(* Symbolic execution of Spec/PyMini.v programs on arguments that contain variables:
   unfolding equations for [exec] / [exec_block] (one statement at a time, so that the
   evaluator is never run under a binder whose environment is unknown), and the tactics
   that apply them.  Nothing here depends on variable names or on the shape of a particular
   generated tree. *)
From Coq Require Import String.
From Curtsies Require Import Model.Base Spec.PyMini.

Lemma block_eq : forall c l r,
  (fix block (l : list stmt) (r : env) {struct l} : outcome :=
     match l with
     | [] => Next r
     | s' :: l' => match exec c s' r with Next r' => block l' r' | o => o end
     end) l r = exec_block c l r.
Proof.
  intros c l. induction l as [|s l IH]; intro r; [reflexivity|].
  cbn [exec_block]. destruct (exec c s r); try reflexivity. apply IH.
Qed.

Lemma exec_block_nil : forall c r, exec_block c [] r = Next r.
Proof. reflexivity. Qed.

Lemma exec_block_cons : forall c s l r,
  exec_block c (s :: l) r = match exec c s r with Next r' => exec_block c l r' | o => o end.
Proof. reflexivity. Qed.

Lemma exec_assign : forall c x e r,
  exec c (SAssign x e) r = match eval c r e with Ok v => Next (bind_var x v r) | Raise ex => Raised ex end.
Proof. reflexivity. Qed.

Lemma exec_augassign : forall c x op e r,
  exec c (SAugAssign x op e) r =
  match lookup x r with
  | None => Raised OtherError
  | Some old =>
      match eval c r e with
      | Ok v => match eval_bin op old v with Ok w => Next (bind_var x w r) | Raise ex => Raised ex end
      | Raise ex => Raised ex
      end
  end.
Proof. reflexivity. Qed.

Lemma exec_if : forall c cnd th el r,
  exec c (SIf cnd th el) r =
  match eval c r cnd with
  | Raise ex => Raised ex
  | Ok v => exec_block c (if truthy v then th else el) r
  end.
Proof.
  intros c cnd th el r.
  change (exec c (SIf cnd th el) r) with
    (match eval c r cnd with
     | Raise ex => Raised ex
     | Ok v => (fix block (l : list stmt) (r : env) {struct l} : outcome :=
                  match l with
                  | [] => Next r
                  | s' :: l' => match exec c s' r with Next r' => block l' r' | o => o end
                  end) (if truthy v then th else el) r
     end).
  destruct (eval c r cnd) as [v|ex]; [apply block_eq | reflexivity].
Qed.

Lemma exec_return : forall c e r,
  exec c (SReturn e) r = match eval c r e with Ok v => Returned v | Raise ex => Raised ex end.
Proof. reflexivity. Qed.

Lemma exec_raise : forall c ex r, exec c (SRaise ex) r = Raised ex.
Proof. reflexivity. Qed.

Lemma exec_pass : forall c r, exec c SPass r = Next r.
Proof. reflexivity. Qed.

Lemma exec_expr : forall c e r,
  exec c (SExpr e) r = match eval c r e with Ok _ => Next r | Raise ex => Raised ex end.
Proof. reflexivity. Qed.

Lemma exec_assert : forall c cnd r,
  exec c (SAssert cnd) r =
  match eval c r cnd with
  | Raise ex => Raised ex
  | Ok v => if truthy v then Next r else Raised AssertionError
  end.
Proof. reflexivity. Qed.

Lemma exec_try1 : forall c b ex handler orelse r,
  exec c (STry [b] ex handler orelse) r =
  match exec c b r with
  | Next r' => exec_block c orelse r'
  | Returned v => Returned v
  | Raised e => if catches ex e then exec_block c handler r else Raised e
  end.
Proof.
  intros c b ex handler orelse r.
  change (exec c (STry [b] ex handler orelse) r) with
    (let block := fix block (l : list stmt) (r : env) {struct l} : outcome :=
                  match l with
                  | [] => Next r
                  | s' :: l' => match exec c s' r with Next r' => block l' r' | o => o end
                  end in
     match exec c b r with
     | Next r' => block orelse r'
     | Returned v => Returned v
     | Raised e => if catches ex e then block handler r else Raised e
     end).
  cbv zeta. destruct (exec c b r) as [r'|v|e]; [apply block_eq | reflexivity |].
  destruct (catches ex e); [apply block_eq | reflexivity].
Qed.

(* the call wrapper, with the evaluator kept folded *)
Definition outcome_res (o : outcome) : res val :=
  match o with Next _ => Ok VNone | Returned v => Ok v | Raised e => Raise e end.

(* unfold ONE statement of the active block (the only closed [exec_block] application: the
   continuations mention a bound environment, which a [context] pattern can not capture) *)
Ltac py_unfold1 :=
  match goal with
  | |- context [exec_block ?c [] ?r] => change (exec_block c [] r) with (Next r)
  | |- context [exec_block ?c (?s :: ?l) ?r] =>
      change (exec_block c (s :: l) r)
        with (match exec c s r with Next r' => exec_block c l r' | o => o end);
      lazymatch s with
      | SAssign ?x ?e => rewrite (exec_assign c x e r)
      | SAugAssign ?x ?op ?e => rewrite (exec_augassign c x op e r)
      | SIf ?cnd ?th ?el => rewrite (exec_if c cnd th el r)
      | SReturn ?e => rewrite (exec_return c e r)
      | SRaise ?ex => rewrite (exec_raise c ex r)
      | SPass => rewrite (exec_pass c r)
      | SExpr ?e => rewrite (exec_expr c e r)
      | SAssert ?cnd => rewrite (exec_assert c cnd r)
      | STry [?b] ?ex ?h ?o => rewrite (exec_try1 c b ex h o r)
      end
  | |- context [exec ?c ?s ?r] =>          (* the single statement of a try body *)
      lazymatch s with
      | SAssign ?x ?e => rewrite (exec_assign c x e r)
      | SReturn ?e => rewrite (exec_return c e r)
      | SExpr ?e => rewrite (exec_expr c e r)
      | SRaise ?ex => rewrite (exec_raise c ex r)
      | SPass => rewrite (exec_pass c r)
      | SIf ?cnd ?th ?el => rewrite (exec_if c cnd th el r)
      | SAssert ?cnd => rewrite (exec_assert c cnd r)
      | SAugAssign ?x ?op ?e => rewrite (exec_augassign c x op e r)
      | STry [?b] ?ex ?h ?o => rewrite (exec_try1 c b ex h o r)
      end
  end.
