(* Symbolic execution of Spec/PyMini.v programs on arguments that contain variables:
   unfolding equations for [exec] / [exec_block] (one statement at a time, so that the
   evaluator is never run under a binder whose environment is unknown), and the tactics
   that apply them.  Nothing here depends on variable names or on the shape of a particular
   generated tree. *)
From Coq Require Import String.
From Curtsies Require Import Model.Base Spec.PyMini.

Lemma block_eq : forall c l r,
  (fix block (l : list stmt) (r : env) {struct l} : outcome :=
     match l with
     | [] => Next r
     | s' :: l' => match exec c s' r with Next r' => block l' r' | o => o end
     end) l r = exec_block c l r.
Proof.
  intros c l. induction l as [|s l IH]; intro r; [reflexivity|].
  cbn [exec_block]. destruct (exec c s r); try reflexivity. apply IH.
Qed.

Lemma exec_block_nil : forall c r, exec_block c [] r = Next r.
Proof. reflexivity. Qed.

Lemma exec_block_cons : forall c s l r,
  exec_block c (s :: l) r = match exec c s r with Next r' => exec_block c l r' | o => o end.
Proof. reflexivity. Qed.

Lemma exec_assign : forall c x e r,
  exec c (SAssign x e) r = match eval c r e with Ok v => Next (bind_var x v r) | Raise ex => Raised ex end.
Proof. reflexivity. Qed.

Lemma exec_augassign : forall c x op e r,
  exec c (SAugAssign x op e) r =
  match lookup x r with
  | None => Raised OtherError
  | Some old =>
      match old with
      | VList _ => Raised OtherError
      | _ =>
          match eval c r e with
          | Ok v => match eval_bin op old v with Ok w => Next (bind_var x w r) | Raise ex => Raised ex end
          | Raise ex => Raised ex
          end
      end
  end.
Proof. intros c x op e r. cbn [exec]. destruct (lookup x r) as [[]|]; reflexivity. Qed.

Lemma exec_if : forall c cnd th el r,
  exec c (SIf cnd th el) r =
  match eval c r cnd with
  | Raise ex => Raised ex
  | Ok v => if testable v then exec_block c (if truthy v then th else el) r else Raised OtherError
  end.
Proof.
  intros c cnd th el r.
  change (exec c (SIf cnd th el) r) with
    (match eval c r cnd with
     | Raise ex => Raised ex
     | Ok v => if testable v then
                 (fix block (l : list stmt) (r : env) {struct l} : outcome :=
                  match l with
                  | [] => Next r
                  | s' :: l' => match exec c s' r with Next r' => block l' r' | o => o end
                  end) (if truthy v then th else el) r
               else Raised OtherError
     end).
  destruct (eval c r cnd) as [v|ex]; [|reflexivity]. destruct (testable v); [apply block_eq | reflexivity].
Qed.

Lemma exec_return : forall c e r,
  exec c (SReturn e) r = match eval c r e with Ok v => Returned v | Raise ex => Raised ex end.
Proof. reflexivity. Qed.

Lemma exec_raise : forall c ex r, exec c (SRaise ex) r = Raised ex.
Proof. reflexivity. Qed.

Lemma exec_pass : forall c r, exec c SPass r = Next r.
Proof. reflexivity. Qed.

(* an expression statement that is not x.append(..) / x.extend(..) *)
Lemma exec_expr : forall c e r, mutation_of e = None ->
  exec c (SExpr e) r = match eval c r e with Ok _ => Next r | Raise ex => Raised ex end.
Proof. intros c e r H. cbn [exec]. rewrite H. reflexivity. Qed.

(* x.append(arg) / x.extend(arg) *)
Lemma exec_mutation : forall c e r x is_extend arg, mutation_of e = Some (x, is_extend, arg) ->
  exec c (SExpr e) r =
  match lookup x r with
  | Some (VList l) =>
      match eval c r arg with
      | Raise ex => Raised ex
      | Ok v =>
          if is_extend then
            match elements v with
            | Ok vs => Next (bind_var x (VList (l ++ vs)) r)
            | Raise ex => Raised ex
            end
          else Next (bind_var x (VList (l ++ [v])) r)
      end
  | _ => Raised OtherError
  end.
Proof. intros c e r x is_extend arg H. cbn [exec]. rewrite H. reflexivity. Qed.

Lemma exec_assert : forall c cnd r,
  exec c (SAssert cnd) r =
  match eval c r cnd with
  | Raise ex => Raised ex
  | Ok v => if testable v then (if truthy v then Next r else Raised AssertionError) else Raised OtherError
  end.
Proof. reflexivity. Qed.

Lemma exec_assert_msg : forall c cnd msg r,
  exec c (SAssertMsg cnd msg) r =
  match eval c r cnd with
  | Raise ex => Raised ex
  | Ok v =>
      if testable v then
        (if truthy v then Next r
         else match eval c r msg with Ok _ => Raised AssertionError | Raise ex => Raised ex end)
      else Raised OtherError
  end.
Proof. reflexivity. Qed.

Lemma exec_try1 : forall c b ex handler orelse r,
  exec c (STry [b] ex handler orelse) r =
  match exec c b r with
  | Next r' => exec_block c orelse r'
  | Returned v => Returned v
  | Raised e => if catches ex e then exec_block c handler r else Raised e
  | Broke r' => Broke r'
  | Continued r' => Continued r'
  end.
Proof.
  intros c b ex handler orelse r.
  change (exec c (STry [b] ex handler orelse) r) with
    (let block := fix block (l : list stmt) (r : env) {struct l} : outcome :=
                  match l with
                  | [] => Next r
                  | s' :: l' => match exec c s' r with Next r' => block l' r' | o => o end
                  end in
     match exec c b r with
     | Next r' => block orelse r'
     | Returned v => Returned v
     | Raised e => if catches ex e then block handler r else Raised e
     | Broke r' => Broke r'
     | Continued r' => Continued r'
     end).
  cbv zeta. destruct (exec c b r) as [r'|v|e|r'|r']; [apply block_eq | reflexivity | | reflexivity | reflexivity].
  destruct (catches ex e); [apply block_eq | reflexivity].
Qed.

Lemma exec_break : forall c r, exec c SBreak r = Broke r.
Proof. reflexivity. Qed.
Lemma exec_continue : forall c r, exec c SContinue r = Continued r.
Proof. reflexivity. Qed.

(* ---- for ----------------------------------------------------------------------------------
   the loop of [exec], as a function of its own: structural recursion over the element
   outcomes of the (already evaluated) iterable *)
Fixpoint for_loop (c : ctx) (t : target) (body : list stmt) (items : list (res val)) (r : env) : outcome :=
  match items with
  | [] => Next r
  | Raise ex :: _ => Raised ex
  | Ok v :: items' =>
      match bind_target t v r with
      | None => Raised OtherError
      | Some r1 =>
          match exec_block c body r1 with
          | Next r2 | Continued r2 => for_loop c t body items' r2
          | Broke r2 => Next r2
          | o => o
          end
      end
  end.

Lemma exec_for : forall c t it body r,
  exec c (SFor t it body) r =
  match eval c r it with
  | Raise ex => Raised ex
  | Ok vi => match iter_items vi with
             | Raise ex => Raised ex
             | Ok items => for_loop c t body items r
             end
  end.
Proof.
  intros c t it body r. cbn [exec].
  destruct (eval c r it) as [vi|ex]; [|reflexivity].
  destruct (iter_items vi) as [items|ex]; [|reflexivity].
  revert r. induction items as [|[v|ex] items IH]; intro r; [reflexivity | | reflexivity].
  cbn [for_loop]. destruct (bind_target t v r) as [r1|]; [|reflexivity].
  rewrite block_eq. destruct (exec_block c body r1); try reflexivity; apply IH.
Qed.

(* ---- a loop against its model ---------------------------------------------------------------
   The model of a loop: a state [St], a step function on the items [X] that goes on, breaks or
   raises.  If the loop body, started in any environment related to a state by [R], ends in the
   outcome the step function prescribes, in an environment related to the new state, then the
   whole `for` does what [loop_model] does.  [R] is the loop invariant; it is a relation between
   model states and ENVIRONMENTS (normally: what [lookup] gives for a few names), so it says
   nothing about the other variables the body may bind. *)
Inductive lres (St : Type) := LNext (s : St) | LBreak (s : St) | LRaise (e : exn).
Arguments LNext {St} s.
Arguments LBreak {St} s.
Arguments LRaise {St} e.

Fixpoint loop_model {St X} (step : St -> X -> lres St) (st : St) (xs : list X) : res St :=
  match xs with
  | [] => Ok st
  | x :: xs' => match step st x with
                | LNext s => loop_model step s xs'
                | LBreak s => Ok s
                | LRaise e => Raise e
                end
  end.

(* what the outcome of one round must be *)
Definition round_post {St} (R : St -> env -> Prop) (m : lres St) (o : outcome) : Prop :=
  match o with
  | Next r2 | Continued r2 => exists s, m = LNext s /\ R s r2
  | Broke r2 => exists s, m = LBreak s /\ R s r2
  | Raised e => m = LRaise e
  | Returned _ => False
  end.

(* what the outcome of the loop is *)
Definition loop_post {St} (R : St -> env -> Prop) (m : res St) (o : outcome) : Prop :=
  match o with
  | Next r' => exists s, m = Ok s /\ R s r'
  | Raised e => m = Raise e
  | _ => False
  end.

Theorem for_loop_model : forall {St X} (c : ctx) (t : target) (body : list stmt)
    (emb : X -> val) (step : St -> X -> lres St) (R : St -> env -> Prop),
  (forall st x r, R st r ->
     match bind_target t (emb x) r with
     | None => False
     | Some r1 => round_post R (step st x) (exec_block c body r1)
     end) ->
  forall xs st r, R st r ->
    loop_post R (loop_model step st xs) (for_loop c t body (map (fun x => Ok (emb x)) xs) r).
Proof.
  intros St X c t body emb step R Hbody xs.
  induction xs as [|x xs IH]; intros st r HR.
  - cbn [map for_loop loop_model loop_post]. exists st. split; [reflexivity | exact HR].
  - cbn [map for_loop loop_model]. specialize (Hbody st x r HR).
    destruct (bind_target t (emb x) r) as [r1|]; [|contradiction].
    destruct (exec_block c body r1) as [r2|v|e|r2|r2]; cbn [round_post] in Hbody.
    + destruct Hbody as [s [Hs HR2]]. rewrite Hs. apply IH, HR2.
    + contradiction.
    + rewrite Hbody. reflexivity.
    + destruct Hbody as [s [Hs HR2]]. rewrite Hs. cbn [loop_post]. exists s. split; [reflexivity | exact HR2].
    + destruct Hbody as [s [Hs HR2]]. rewrite Hs. apply IH, HR2.
Qed.


(* the call wrapper, with the evaluator kept folded *)
Definition outcome_res (o : outcome) : res val :=
  match o with Next _ => Ok VNone | Returned v => Ok v | Raised e => Raise e | Broke _ | Continued _ => Raise OtherError end.

(* unfold ONE statement of the active block (the only closed [exec_block] application: the
   continuations mention a bound environment, which a [context] pattern can not capture) *)
Ltac py_unfold_expr c e r :=
  let m := eval cbv in (mutation_of e) in
  lazymatch m with
  | None => rewrite (exec_expr c e r (eq_refl : mutation_of e = None))
  | Some (?x, ?ext, ?arg) => rewrite (exec_mutation c e r x ext arg (eq_refl : mutation_of e = Some (x, ext, arg)))
  end.

Ltac py_unfold1 :=
  match goal with
  | |- context [exec_block ?c [] ?r] => change (exec_block c [] r) with (Next r)
  | |- context [exec_block ?c (?s :: ?l) ?r] =>
      change (exec_block c (s :: l) r)
        with (match exec c s r with Next r' => exec_block c l r' | o => o end);
      lazymatch s with
      | SAssign ?x ?e => rewrite (exec_assign c x e r)
      | SAugAssign ?x ?op ?e => rewrite (exec_augassign c x op e r)
      | SIf ?cnd ?th ?el => rewrite (exec_if c cnd th el r)
      | SReturn ?e => rewrite (exec_return c e r)
      | SRaise ?ex => rewrite (exec_raise c ex r)
      | SPass => rewrite (exec_pass c r)
      | SExpr ?e => py_unfold_expr c e r
      | SAssert ?cnd => rewrite (exec_assert c cnd r)
      | SAssertMsg ?cnd ?m => rewrite (exec_assert_msg c cnd m r)
      | STry [?b] ?ex ?h ?o => rewrite (exec_try1 c b ex h o r)
      | SFor ?t ?it ?body => rewrite (exec_for c t it body r)
      | SBreak => rewrite (exec_break c r)
      | SContinue => rewrite (exec_continue c r)
      end
  | |- context [exec ?c ?s ?r] =>          (* the single statement of a try body *)
      lazymatch s with
      | SAssign ?x ?e => rewrite (exec_assign c x e r)
      | SReturn ?e => rewrite (exec_return c e r)
      | SExpr ?e => py_unfold_expr c e r
      | SRaise ?ex => rewrite (exec_raise c ex r)
      | SPass => rewrite (exec_pass c r)
      | SIf ?cnd ?th ?el => rewrite (exec_if c cnd th el r)
      | SAssert ?cnd => rewrite (exec_assert c cnd r)
      | SAssertMsg ?cnd ?m => rewrite (exec_assert_msg c cnd m r)
      | SAugAssign ?x ?op ?e => rewrite (exec_augassign c x op e r)
      | STry [?b] ?ex ?h ?o => rewrite (exec_try1 c b ex h o r)
      end
  end.

(* [for_loop_model] for items that are known to satisfy a predicate (what the iterable
   guarantees about its elements, e.g. how the three lists of a zip are related): the round
   is only run on such items *)
Theorem for_loop_model_on : forall {St X} (c : ctx) (t : target) (body : list stmt)
    (emb : X -> val) (step : St -> X -> lres St) (R : St -> env -> Prop) (P : X -> Prop),
  (forall st x r, P x -> R st r ->
     match bind_target t (emb x) r with
     | None => False
     | Some r1 => round_post R (step st x) (exec_block c body r1)
     end) ->
  forall xs, Forall P xs -> forall st r, R st r ->
    loop_post R (loop_model step st xs) (for_loop c t body (map (fun x => Ok (emb x)) xs) r).
Proof.
  intros St X c t body emb step R P Hbody xs HP.
  induction HP as [|x xs Hx HP IH]; intros st r HR.
  - cbn [map for_loop loop_model loop_post]. exists st. split; [reflexivity | exact HR].
  - cbn [map for_loop loop_model]. specialize (Hbody st x r Hx HR).
    destruct (bind_target t (emb x) r) as [r1|]; [|contradiction].
    destruct (exec_block c body r1) as [r2|v|e|r2|r2]; cbn [round_post] in Hbody.
    + destruct Hbody as [s [Hs HR2]]. rewrite Hs. apply IH, HR2.
    + contradiction.
    + rewrite Hbody. reflexivity.
    + destruct Hbody as [s [Hs HR2]]. rewrite Hs. cbn [loop_post]. exists s. split; [reflexivity | exact HR2].
    + destruct Hbody as [s [Hs HR2]]. rewrite Hs. apply IH, HR2.
Qed.
