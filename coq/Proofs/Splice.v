(* C09: FmtStr.splice replaces exactly the requested range, for arbitrary
   FmtStrs (any number of runs, empty runs, no runs), arbitrary replacement
   values and all 0 <= start <= end; append; setslice_with_length / setitem.

   INTERFACE for importers (C04) -- characterising lemmas:
     splice_cells / splice_text / splice_len   0 <= s <= e:  cells (splice f new s e) =
                                               firstn s (cells f) ++ op_cells new ++ skipn e (cells f)
     splice_nothing                            empty replacement and e <= s returns f itself
     splice_past_end, append_cells,            a start past the end appends; append = splice at len
       append_is_splice_at_len
     splice_no_empty_runs                      the result has no empty run (except the early return)
     setslice_cells, setitem_cells             0 <= s <= e: setslice_with_length on cells =
                                               setslice_ref (Spec/ListOps.v): left/right padding with
                                               blanks, AssertionError, ValueError
     setslice_exact                            a value of length e - s into a range inside the row:
                                               Ok, that range replaced, length unchanged
     splice_items_triples, loop_inserted,      the loop itself: zip over divides = runs with running
       loop_pending                            offsets; the "inserted exactly once" invariant        *)
From Curtsies Require Import Model.Base Spec.ListOps Model.Slice Model.Splice Proofs.Slice.
From Coq Require Import Lia ZifyBool ZifyNat ZifyN.
Local Close Scope N_scope.
Local Open Scope Z_scope.

(* ====================================================================== *)
(* 1. zip(self.chunks, divides[:-1], divides[1:]) is the run list with its   *)
(*    running offsets                                                        *)
Fixpoint triples (k : Z) (f : fmtstr) : list (chunk * Z * Z) :=
  match f with
  | [] => []
  | c :: r => (c, k, k + chunk_len c) :: triples (k + chunk_len c) r
  end.

Lemma divides_from_eq k f :
  divides_from k f =
  k :: match f with [] => [] | s :: rest => divides_from (k + chunk_len s) rest end.
Proof. destruct f; reflexivity. Qed.

Lemma zip3_divides : forall f k,
  zip3 f (removelast (divides_from k f)) (tl (divides_from k f)) = triples k f.
Proof.
  induction f as [|c r IH]; intros k; [reflexivity|].
  rewrite divides_from_eq. cbn [tl].
  specialize (IH (k + chunk_len c)).
  rewrite divides_from_eq in IH |- *.
  cbn [removelast tl zip3 triples] in IH |- *.
  f_equal. exact IH.
Qed.

Lemma splice_items_triples f : splice_items f = triples 0 f.
Proof. unfold splice_items, divides. apply zip3_divides. Qed.

(* divides is the list of run boundaries: 0, len(run1), len(run1)+len(run2), ... *)
Lemma divides_length f : length (divides f) = Datatypes.S (length f).
Proof.
  unfold divides. generalize 0. induction f as [|c r IH]; intros k; [reflexivity|].
  rewrite divides_from_eq. cbn [length]. now rewrite IH.
Qed.

(* ====================================================================== *)
(* 2. pieces of a run                                                        *)
Lemma chunk_cells_pyslice c a b :
  chunk_cells (mkChunk (pyslice (c_s c) a b) (c_a c)) = pyslice (chunk_cells c) a b.
Proof. unfold chunk_cells. cbn [c_s c_a]. symmetry. apply pyslice_map. Qed.

Lemma chunk_cells_empty c : chunk_len c = 0 -> chunk_cells c = [].
Proof.
  intros H. rewrite <- chunk_cells_length in H.
  destruct (chunk_cells c); [reflexivity|cbn in H; lia].
Qed.

Lemma cells_filter_nonempty comps :
  cells (filter (fun c => negb (is_empty (c_s c))) comps) = cells comps.
Proof.
  induction comps as [|c r IH]; [reflexivity|].
  cbn [filter]. destruct (c_s c) as [|x s] eqn:E; cbn [is_empty negb].
  - rewrite cells_cons, IH. unfold chunk_cells. now rewrite E.
  - now rewrite !cells_cons, IH.
Qed.

(* ====================================================================== *)
(* 3. the loop                                                               *)
Section Loop.
Variable new_fs : fmtstr.
Variables s e : Z.
Hypothesis Hs : 0 <= s.
Hypothesis Hse : s <= e.

Let step := splice_step new_fs s e.

(* after the insertion (offset k >= start): the remaining runs contribute
   what lies at or after [end] *)
Lemma loop_inserted : forall r k comps, s <= k ->
  exists comps',
    fold_left step (triples k r) (comps, true) = (comps', true) /\
    cells comps' = cells comps ++ skipn (Z.to_nat (e - k)) (cells r).
Proof.
  induction r as [|c r IH]; intros k comps Hk.
  - exists comps. split; [reflexivity|]. cbn. now rewrite skipn_nil, app_nil_r.
  - cbn [triples fold_left].
    set (n := chunk_len c).
    assert (Hn : 0 <= n) by (unfold n, chunk_len; lia).
    pose proof (chunk_cells_length c) as Hlen. fold n in Hlen.
    rewrite cells_cons, skipn_app.
    replace (Z.to_nat (e - k) - length (chunk_cells c))%nat with (Z.to_nat (e - (k + n))) by lia.
    unfold step at 2. unfold splice_step.
    rewrite !andb_false_r. cbn [negb].
    destruct ((k <? e) && (e <? k + n)) eqn:E3.
    + (* the run containing [end]: keep its tail *)
      destruct (IH (k + n) (comps ++ [mkChunk (pyslice (c_s c) (Some (e - k)) None) (c_a c)]))
        as [comps' [HF HC]]; [lia|].
      exists comps'. split; [exact HF|]. rewrite HC, cells_app, cells_single.
      rewrite chunk_cells_pyslice, pyslice_tail by lia. now rewrite <- app_assoc.
    + destruct ((k >=? e) || (k + n <=? s)) eqn:E4.
      * (* a run after the range (or an empty run at the insertion point): kept whole *)
        destruct (IH (k + n) (comps ++ [c])) as [comps' [HF HC]]; [lia|].
        exists comps'. split; [exact HF|]. rewrite HC, cells_app, cells_single, <- app_assoc.
        f_equal. f_equal.
        destruct (Z_le_gt_dec e k) as [Hek|Hek].
        -- now replace (Z.to_nat (e - k)) with 0%nat by lia.
        -- rewrite chunk_cells_empty by lia. now rewrite skipn_nil.
      * (* a run inside the replaced range: dropped *)
        destruct (IH (k + n) comps) as [comps' [HF HC]]; [lia|].
        exists comps'. split; [exact HF|]. rewrite HC. f_equal.
        rewrite (skipn_all2 (chunk_cells c)) by lia. reflexivity.
Qed.

Definition finish (st : list chunk * bool) : list chunk :=
  if snd st then fst st else fst st ++ new_fs.

(* before the insertion (offset k <= start): the remaining runs contribute their
   first start-k cells, then the new runs exactly once, then what lies at or
   after [end] *)
Lemma loop_pending : forall r k comps, k <= s ->
  cells (finish (fold_left step (triples k r) (comps, false))) =
  cells comps ++ firstn (Z.to_nat (s - k)) (cells r) ++ cells new_fs
              ++ skipn (Z.to_nat (e - k)) (cells r).
Proof.
  induction r as [|c r IH]; intros k comps Hk.
  - cbn [triples fold_left finish fst snd cells flat_map].
    rewrite firstn_nil, skipn_nil, app_nil_r. apply cells_app.
  - cbn [triples fold_left].
    set (n := chunk_len c).
    assert (Hn : 0 <= n) by (unfold n, chunk_len; lia).
    pose proof (chunk_cells_length c) as Hlen. fold n in Hlen.
    rewrite cells_cons, skipn_app, firstn_app.
    replace (Z.to_nat (e - k) - length (chunk_cells c))%nat with (Z.to_nat (e - (k + n))) by lia.
    replace (Z.to_nat (s - k) - length (chunk_cells c))%nat with (Z.to_nat (s - (k + n))) by lia.
    unfold step at 2. unfold splice_step. cbn [negb]. rewrite !andb_true_r.
    destruct ((e =? k) && (k =? 0)) eqn:E1.
    + (* insertion at position 0 in front of the first run(s) *)
      destruct (loop_inserted r (k + n) (comps ++ new_fs ++ [c])) as [comps' [HF HC]]; [lia|].
      fold step. rewrite HF. cbn [finish fst snd]. rewrite HC, !cells_app, cells_single.
      replace (Z.to_nat (s - k)) with 0%nat by lia.
      replace (Z.to_nat (s - (k + n))) with 0%nat by lia.
      replace (Z.to_nat (e - k)) with 0%nat by lia.
      cbn [firstn skipn app]. now rewrite <- !app_assoc.
    + destruct ((k <=? s) && (s <? k + n)) eqn:E2.
      * (* the run containing [start]: head, the new runs, and its tail if [end] is inside too *)
        replace (Z.to_nat (s - (k + n))) with 0%nat by lia. cbn [firstn]. rewrite app_nil_r.
        set (head := mkChunk (pyslice (c_s c) None (Some (s - k))) (c_a c)).
        assert (Hhead : chunk_cells head = firstn (Z.to_nat (s - k)) (chunk_cells c)).
        { unfold head. rewrite chunk_cells_pyslice, pyslice_head by lia. reflexivity. }
        destruct (e <? k + n) eqn:E5.
        -- destruct (loop_inserted r (k + n)
                       ((comps ++ [head] ++ new_fs) ++
                        [mkChunk (pyslice (c_s c) (Some (e - k)) None) (c_a c)]))
             as [comps' [HF HC]]; [lia|].
           fold step. rewrite HF. cbn [finish fst snd].
           rewrite HC, !cells_app, !cells_single, Hhead.
           rewrite chunk_cells_pyslice, pyslice_tail by lia.
           now rewrite <- !app_assoc.
        -- destruct (loop_inserted r (k + n) (comps ++ [head] ++ new_fs))
             as [comps' [HF HC]]; [lia|].
           fold step. rewrite HF. cbn [finish fst snd].
           rewrite HC, !cells_app, !cells_single, Hhead.
           rewrite (skipn_all2 (chunk_cells c)) by lia.
           cbn [app]. now rewrite <- !app_assoc.
      * destruct ((k <? e) && (e <? k + n)) eqn:E3; [lia|].
        destruct ((k >=? e) || (k + n <=? s)) eqn:E4; [|lia].
        (* a run entirely before [start]: kept whole *)
        fold step. rewrite IH by lia. rewrite cells_app, cells_single.
        rewrite (firstn_all2 (chunk_cells c)) by lia. rewrite (skipn_all2 (chunk_cells c)) by lia.
        cbn [app]. now rewrite <- !app_assoc.
Qed.

End Loop.

(* ====================================================================== *)
(* 4. splice, append                                                         *)
Definition end_of (start : Z) (end_ : option Z) : Z :=
  match end_ with None => start | Some e => e end.

Theorem splice_cells f new s e :
  0 <= s -> s <= end_of s e ->
  cells (splice f new s e) =
  list_splice (cells f) (op_cells new) (Z.to_nat s) (Z.to_nat (end_of s e)).
Proof.
  intros Hs Hse. unfold splice. fold (end_of s e). set (e' := end_of s e) in *.
  unfold list_splice.
  destruct ((op_len new =? 0) && (e' <=? s)) eqn:Eearly.
  - (* return self *)
    assert (Hnil : op_cells new = []).
    { pose proof (op_len_cells new) as H. destruct (op_cells new); [reflexivity|cbn in H; lia]. }
    rewrite Hnil. replace e' with s by lia. cbn [app]. symmetry. apply firstn_skipn.
  - rewrite splice_items_triples.
    pose proof (loop_pending (to_fs new) s e' Hs Hse f 0 [] Hs) as HL.
    destruct (fold_left (splice_step (to_fs new) s e') (triples 0 f) ([], false))
      as [comps inserted] eqn:EF.
    rewrite cells_filter_nonempty.
    unfold finish in HL. cbn [fst snd] in HL. rewrite HL.
    rewrite !Z.sub_0_r, cells_to_fs. reflexivity.
Qed.

Corollary splice_text f new s e :
  0 <= s -> s <= end_of s e ->
  text (splice f new s e) =
  list_splice (text f) (op_text new) (Z.to_nat s) (Z.to_nat (end_of s e)).
Proof.
  intros Hs Hse. rewrite !text_cells, splice_cells by assumption.
  unfold list_splice. rewrite !map_app, firstn_map, skipn_map, op_text_cells. reflexivity.
Qed.

Corollary splice_len f new s e :
  0 <= s -> s <= end_of s e ->
  len (splice f new s e) =
  Z.min s (len f) + op_len new + Z.max 0 (len f - end_of s e).
Proof.
  intros Hs Hse. rewrite !len_cells, op_len_cells, splice_cells by assumption.
  unfold list_splice. rewrite !app_length, firstn_length, skipn_length. lia.
Qed.

(* the early return gives back the operand itself *)
Lemma splice_nothing f new s e :
  op_len new = 0 -> end_of s e <= s -> splice f new s e = f.
Proof.
  intros H1 H2. unfold splice. fold (end_of s e).
  destruct ((op_len new =? 0) && (end_of s e <=? s)) eqn:E; [reflexivity|lia].
Qed.

(* a start past the end appends *)
Corollary splice_past_end f new s e :
  len f <= s -> s <= end_of s e ->
  cells (splice f new s e) = cells f ++ op_cells new.
Proof.
  intros H1 H2. pose proof (len_nonneg f). rewrite splice_cells by lia.
  unfold list_splice. rewrite len_cells in H1.
  rewrite firstn_all2, skipn_all2 by lia. now rewrite app_nil_r.
Qed.

Theorem append_cells f x : cells (append f x) = cells f ++ op_cells x.
Proof.
  unfold append. apply splice_past_end; cbn [end_of]; rewrite ?len_text; lia.
Qed.

Corollary append_text f x : text (append f x) = text f ++ op_text x.
Proof. now rewrite !text_cells, append_cells, map_app, op_text_cells. Qed.

Theorem append_is_splice_at_len f x : append f x = splice f x (len f) None.
Proof. unfold append. now rewrite len_text. Qed.

(* ====================================================================== *)
(* 5. setslice_with_length, setitem                                          *)
Definition blank : cell := (32%N, sgr_default).

Lemma plain_cells_spaces k : plain_cells (spaces k) = repeat blank (Z.to_nat k).
Proof.
  unfold spaces. induction (Z.to_nat k) as [|m IH]; [reflexivity|].
  unfold plain_cells in *. cbn [repeat map]. now rewrite IH.
Qed.

Lemma plain_cells_app a b : plain_cells (a ++ b) = plain_cells a ++ plain_cells b.
Proof. apply map_app. Qed.

Lemma str_plus_cells s fs : op_cells (str_plus s fs) = plain_cells s ++ op_cells fs.
Proof.
  destruct fs as [t|g]; cbn [str_plus op_cells].
  - apply plain_cells_app.
  - rewrite radd_cells. reflexivity.
Qed.

Lemma plus_str_cells fs s : op_cells (plus_str fs s) = op_cells fs ++ plain_cells s.
Proof.
  destruct fs as [t|g]; cbn [plus_str op_cells].
  - apply plain_cells_app.
  - rewrite add_cells. reflexivity.
Qed.

Theorem setslice_cells f s e fs limit :
  0 <= s <= e ->
  res_map cells (setslice_with_length f s e fs limit) =
  setslice_ref blank (cells f) (op_cells fs) (Z.to_nat s) (Z.to_nat e) limit.
Proof.
  intros Hse. unfold setslice_with_length, setslice_ref.
  pose proof (len_cells f) as HL. pose proof (len_nonneg f) as HL0.
  set (fs1 := if len f <? s then str_plus (spaces (s - len f)) fs else fs).
  assert (H1 : op_cells fs1 = repeat blank (Z.to_nat s - length (cells f)) ++ op_cells fs).
  { subst fs1. destruct (len f <? s) eqn:E.
    - rewrite str_plus_cells, plain_cells_spaces. do 2 f_equal. lia.
    - replace (Z.to_nat s - length (cells f))%nat with 0%nat by lia. reflexivity. }
  rewrite <- H1.
  pose proof (op_len_cells fs1) as HL1.
  assert (Hsplice : forall x, res_map cells
            (let result := splice f x s (Some e) in
             if len result >? limit then Raise ValueError else Ok result) =
            (let r := list_splice (cells f) (op_cells x) (Z.to_nat s) (Z.to_nat e) in
             if limit <? Z.of_nat (length r) then Raise ValueError else Ok r)).
  { intros x. cbv zeta.
    assert (HS : cells (splice f x s (Some e)) =
                 list_splice (cells f) (op_cells x) (Z.to_nat s) (Z.to_nat e))
      by (apply splice_cells; cbn [end_of]; lia).
    rewrite len_cells, HS.
    destruct (Z.of_nat (length (list_splice (cells f) (op_cells x) (Z.to_nat s) (Z.to_nat e))) >? limit) eqn:E;
    destruct (limit <? Z.of_nat (length (list_splice (cells f) (op_cells x) (Z.to_nat s) (Z.to_nat e)))) eqn:E';
    try lia; cbn [res_map]; [reflexivity|now rewrite HS]. }
  destruct (len f >? e) eqn:Ee.
  - replace (Nat.ltb (Z.to_nat e) (length (cells f))) with true by (symmetry; apply Nat.ltb_lt; lia).
    set (fs2 := plus_str fs1 (spaces (e - s - op_len fs1))).
    assert (H2 : op_cells fs2 = op_cells fs1 ++
                 repeat blank (Z.to_nat e - Z.to_nat s - length (op_cells fs1))).
    { subst fs2. rewrite plus_str_cells, plain_cells_spaces. do 2 f_equal. lia. }
    pose proof (op_len_cells fs2) as HL2. rewrite H2, app_length, repeat_length in HL2.
    destruct (op_len fs2 =? e - s) eqn:Ea.
    + replace (Nat.leb (length (op_cells fs1)) (Z.to_nat e - Z.to_nat s)) with true
        by (symmetry; apply Nat.leb_le; lia).
      cbn [bind]. rewrite <- H2. apply Hsplice.
    + replace (Nat.leb (length (op_cells fs1)) (Z.to_nat e - Z.to_nat s)) with false
        by (symmetry; apply Nat.leb_gt; lia).
      reflexivity.
  - replace (Nat.ltb (Z.to_nat e) (length (cells f))) with false by (symmetry; apply Nat.ltb_ge; lia).
    cbn [bind]. apply Hsplice.
Qed.

Corollary setitem_cells f i fs :
  0 <= i ->
  res_map cells (setitem f i fs) =
  setslice_ref blank (cells f) (op_cells fs) (Z.to_nat i) (Z.to_nat (i + 1))
               (Z.of_nat (length (cells f))).
Proof. intros Hi. unfold setitem. rewrite setslice_cells by lia. now rewrite len_cells. Qed.

(* the common case used by FSArray: a value that exactly fills a range inside
   (or at the end of) the row replaces that range and nothing else *)
Corollary setslice_exact f s e fs limit :
  0 <= s <= e -> e <= len f -> op_len fs = e - s -> len f <= limit ->
  exists r, setslice_with_length f s e fs limit = Ok r /\
            cells r = list_splice (cells f) (op_cells fs) (Z.to_nat s) (Z.to_nat e) /\
            len r = len f.
Proof.
  intros Hse He Hfs Hlim.
  pose proof (setslice_cells f s e fs limit Hse) as H.
  pose proof (len_cells f) as HL. pose proof (op_len_cells fs) as HF.
  unfold setslice_ref in H.
  replace (Z.to_nat s - length (cells f))%nat with 0%nat in H by lia.
  cbn [repeat app] in H.
  assert (Hlen : length (list_splice (cells f) (op_cells fs) (Z.to_nat s) (Z.to_nat e)) = length (cells f)).
  { unfold list_splice. rewrite !app_length, firstn_length, skipn_length. lia. }
  destruct (Nat.ltb (Z.to_nat e) (length (cells f))) eqn:E1.
  - replace (Nat.leb (length (op_cells fs)) (Z.to_nat e - Z.to_nat s)) with true in H
      by (symmetry; apply Nat.leb_le; lia).
    replace (Z.to_nat e - Z.to_nat s - length (op_cells fs))%nat with 0%nat in H by lia.
    cbn [repeat bind] in H. rewrite app_nil_r in H. rewrite Hlen in H.
    destruct (limit <? Z.of_nat (length (cells f))) eqn:E2; [lia|].
    destruct (setslice_with_length f s e fs limit) as [r|ex]; cbn [res_map] in H; [|discriminate].
    injection H as H. exists r. split; [reflexivity|]. split; [exact H|].
    rewrite (len_cells r), H, Hlen. lia.
  - cbn [bind] in H. rewrite Hlen in H.
    destruct (limit <? Z.of_nat (length (cells f))) eqn:E2; [lia|].
    destruct (setslice_with_length f s e fs limit) as [r|ex]; cbn [res_map] in H; [|discriminate].
    injection H as H. exists r. split; [reflexivity|]. split; [exact H|].
    rewrite (len_cells r), H, Hlen. lia.
Qed.

(* ====================================================================== *)
(* 6. structure of the result: apart from the early return, the final filter
      leaves no empty run                                                    *)
Lemma forallb_filter {X} (p : X -> bool) l : forallb p (filter p l) = true.
Proof.
  induction l as [|x l IH]; [reflexivity|]. cbn [filter].
  destruct (p x) eqn:E; [cbn [forallb]; now rewrite E|exact IH].
Qed.

Theorem splice_no_empty_runs f new s e :
  ~ (op_len new = 0 /\ end_of s e <= s) ->
  forallb (fun c => negb (is_empty (c_s c))) (splice f new s e) = true.
Proof.
  intros H. unfold splice. fold (end_of s e).
  destruct ((op_len new =? 0) && (end_of s e <=? s)) eqn:E; [lia|].
  destruct (fold_left _ _ _) as [comps inserted].
  apply forallb_filter.
Qed.
