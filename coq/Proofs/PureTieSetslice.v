(* curtsies.formatstring.FmtStr.setslice_with_length: repository text = model (Model/Splice.v), for all
   FmtStrs, all operands (a str without an escape introducer, or a FmtStr) and all ints.  The methods it
   calls -- splice, and through `str + fs` / `fs + str` __radd__ / __add__ -- are the generated trees,
   replaced here by their own tie theorems. *)
From Coq Require Import String Lia ZifyBool ZifyNat ZifyN.
From Curtsies Require Import Model.Base Model.Splice Spec.ListOps Spec.PyMini Gen.Pure Gen.PureFmt Spec.PyEnvFmt
  Model.Slice Proofs.PyStep Proofs.PureTieBase Proofs.PureTieFmtBase Proofs.PureTieSplice Proofs.PureTieCallBase Proofs.PureTieAdd Proofs.PureTieRadd.
Local Open Scope Z_scope.

(* fs + str / str + fs with fs a FmtStr *)
Ltac add_call_step :=
  match goal with
  | |- context [sem_FmtStr_add (cons (VRec ?c (cons (?n, VList (map ?e ?f)) nil)) (cons ?v nil))] =>
      let o := operand_of v in
      change (sem_FmtStr_add [VRec c [(n, VList (map e f))]; v])
        with (call_in ctxF3 py_FmtStr_add [embed_fmtstr f; embed_operand o]);
      rewrite (add_tie f o)
  | |- context [sem_FmtStr_radd (cons (VRec ?c (cons (?n, VList (map ?e ?f)) nil)) (cons ?v nil))] =>
      let o := operand_of v in
      change (sem_FmtStr_radd [VRec c [(n, VList (map e f))]; v])
        with (call_in ctxF3 py_FmtStr_radd [embed_fmtstr f; embed_operand o]);
      rewrite (radd_tie f o)
  end.


(* ---- setslice_with_length ----------------------------------------------------------------------------- *)
Ltac decide_head' :=
  match goal with
  | |- context [if ?c then _ else _] =>
      lazymatch c with
      | (_ <? _)%Z => decide_atom c
      | (_ >? _)%Z => decide_atom c
      | (_ <=? _)%Z => decide_atom c
      | (_ >=? _)%Z => decide_atom c
      | (_ =? _)%Z => decide_atom c
      end
  end.

Theorem setslice_tie : forall f a b fs length,
  operand_plain fs = true ->
  call_in ctxF4 py_FmtStr_setslice_with_length [embed_fmtstr f; VInt a; VInt b; embed_operand fs; VInt length]
  = embed_fs_res (setslice_with_length f a b fs length).
Proof.
  not_a_stub py_FmtStr_setslice_with_length.
  intros f a b fs length Hplain.
  assert (Hp : match fs with OStr s => has_esc_intro s = false | OFmt _ => True end).
  { destruct fs as [s|g]; [|exact I]. cbn [operand_plain] in Hplain. destruct (has_esc_intro s); [discriminate | reflexivity]. }
  clear Hplain.
  unfold call_in.
  remember (embed_fs_res (setslice_with_length f a b fs length)) as rhs eqn:Hrhs.
  destruct fs as [t|g]; cbn [embed_operand] in *; pcbv.
  all: frun ltac:(idtac; first [ splice_call_step | add_call_step | decide_head' ]).
  all: subst rhs; unfold setslice_with_length, str_plus, plus_str, spaces; cbn [op_len]; unfold char;
       rewrite ?concat_repeat1 in *;
       repeat (progress (use_eqns; cbv beta iota zeta delta [bind embed_fs_res op_len]; unfold char));
       repeat (decide_head'; cbv beta iota zeta delta [bind embed_fs_res op_len]).
  all: first [ reflexivity
             | fail 1 "TIE BROKEN: the repository's curtsies.formatstring.FmtStr.setslice_with_length no longer computes what the model computes" ].
Qed.

