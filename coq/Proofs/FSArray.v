(* C04: FSArray region assignment, on top of the row-level theorem
   [setslice_cells] (Proofs/Splice.v, C09) and the slicing theorem (C06). *)
From Curtsies Require Import Model.Base Spec.ListOps Model.Slice Model.Splice Model.FSArray Spec.Grid
     Proofs.Slice Proofs.Splice.
From Coq Require Import Lia ZifyBool ZifyNat.
Close Scope N_scope.
Local Open Scope Z_scope.

Lemma blank_eq : Splice.blank = Grid.blank.
Proof. reflexivity. Qed.

(* ---- the width invariant ---------------------------------------------------------- *)
Definition inv (a : fsarr) : Prop :=
  0 <= fa_cols a /\ Forall (fun r => len r <= fa_cols a) (fa_rows a).

Lemma len_fresh_row fill : len (fresh_row fill) = 0.
Proof. reflexivity. Qed.

Lemma setslice_len_le f s e x limit r :
  setslice_with_length f s e x limit = Ok r -> len r <= limit.
Proof.
  unfold setslice_with_length. intros H.
  destruct (if len f >? e then _ else _) as [fs|ex]; cbn [bind] in H; [|discriminate].
  destruct (len (splice f fs s (Some e)) >? limit) eqn:E; [discriminate|]. injection H as <-. lia.
Qed.

Lemma map2_res_Forall {X Y W} (g : X -> Y -> res W) (P : W -> Prop) :
  (forall x y w, g x y = Ok w -> P w) ->
  forall xs ys ws, map2_res g xs ys = Ok ws -> Forall P ws.
Proof.
  intros Hg. induction xs as [|x xs IH]; intros ys ws H; cbn [map2_res] in H.
  - injection H as <-. constructor.
  - destruct ys as [|y ys]; [injection H as <-; constructor|].
    destruct (g x y) as [w|e] eqn:E; [|discriminate].
    destruct (map2_res g xs ys) as [ws'|e] eqn:E2; [|discriminate].
    injection H as <-. constructor; [eapply Hg, E | eapply IH, E2].
Qed.

Lemma Forall_firstn_Z {X} (P : X -> Prop) n l : Forall P l -> Forall P (firstn n l).
Proof. revert l. induction n; intros [|x l] H; cbn; try constructor; inversion H; subst; auto. Qed.
Lemma Forall_skipn_Z {X} (P : X -> Prop) n l : Forall P l -> Forall P (skipn n l).
Proof. revert l. induction n; intros [|x l] H; cbn; try constructor; inversion H; subst; auto. Qed.
Lemma Forall_repeat {X} (P : X -> Prop) x n : P x -> Forall P (repeat x n).
Proof. intros H. induction n; cbn; constructor; auto. Qed.

(* every assignment, successful or not, with any index and any value, keeps every row within the width *)
Theorem setitem_inv a ri ci v : inv a -> inv (fst (fsa_setitem a ri ci v)).
Proof.
  intros [Hc Hr]. unfold fsa_setitem.
  destruct (normalize_slice maxsize ri) as [r|e]; [|split; assumption].
  set (rows1 := fa_rows a ++ repeat (fresh_row (fa_fill a)) _).
  assert (H1 : Forall (fun r => len r <= fa_cols a) rows1).
  { apply Forall_app. split; [exact Hr|]. apply Forall_repeat. rewrite len_fresh_row. exact Hc. }
  assert (I1 : inv (with_rows a rows1)) by (split; assumption).
  destruct (normalize_slice (fa_cols a) ci) as [c|e]; [|exact I1].
  destruct ((slicesize c =? 0) || (slicesize r =? 0)); [exact I1|].
  destruct ((slicesize c >? 1) && value_is_str v); [exact I1|].
  destruct (negb (slicesize r =? Z.of_nat (length (value_items v)))); [exact I1|].
  destruct (map2_res _ _ _) as [new|e] eqn:E; [|exact I1].
  cbn [fst]. split; [exact Hc|]. cbn [with_rows fa_rows fa_cols].
  apply Forall_app. split; [apply Forall_firstn_Z, H1|].
  apply Forall_app. split; [|apply Forall_skipn_Z, H1].
  eapply map2_res_Forall; [|exact E]. intros x y w Hw. cbn beta in Hw. eapply setslice_len_le, Hw.
Qed.

Lemma new_inv n cols fill : 0 <= cols -> inv (fsa_new n cols fill).
Proof. intros H. split; [exact H|]. cbn. apply Forall_repeat. rewrite len_fresh_row. exact H. Qed.

(* histories of assignments *)
Fixpoint setitems (a : fsarr) (ops : list (index * index * value)) : fsarr :=
  match ops with
  | [] => a
  | (ri, ci, v) :: rest => setitems (fst (fsa_setitem a ri ci v)) rest
  end.

Theorem history_inv : forall ops a, inv a -> inv (setitems a ops).
Proof.
  induction ops as [|[[ri ci] v] rest IH]; intros a H; cbn [setitems]; [exact H|].
  apply IH, setitem_inv, H.
Qed.

(* ---- an error changes no cell: the rows are the old ones plus fresh (blank) rows -------- *)
Theorem setitem_error_unchanged a ri ci v a' e :
  fsa_setitem a ri ci v = (a', Raise e) ->
  exists k, fa_rows a' = fa_rows a ++ repeat (fresh_row (fa_fill a)) k /\ fa_cols a' = fa_cols a.
Proof.
  unfold fsa_setitem. intros H.
  destruct (normalize_slice maxsize ri) as [r|e1].
  2:{ injection H as <- _. exists 0%nat. cbn. now rewrite app_nil_r. }
  set (k := Z.to_nat (Z.max 0 (snd r - Z.of_nat (length (fa_rows a))))) in *.
  destruct (normalize_slice (fa_cols a) ci) as [c|e2]; [|injection H as <- _; exists k; split; reflexivity].
  destruct ((slicesize c =? 0) || (slicesize r =? 0)); [discriminate|].
  destruct ((slicesize c >? 1) && value_is_str v); [injection H as <- _; exists k; split; reflexivity|].
  destruct (negb (slicesize r =? Z.of_nat (length (value_items v)))); [injection H as <- _; exists k; split; reflexivity|].
  destruct (map2_res _ _ _) as [new|e3]; [discriminate|]. injection H as <- _. exists k; split; reflexivity.
Qed.

Lemma cells_fresh_row fill : cells (fresh_row fill) = [].
Proof. reflexivity. Qed.

(* ---- one row: assigning x to columns [c0, c1) ------------------------------------------ *)
Lemma pad_length w l : (length l <= w)%nat -> length (pad w l) = w.
Proof. intros H. unfold pad. rewrite app_length, repeat_length. lia. Qed.

Lemma firstn_pad w l n : (n <= length l)%nat -> firstn n (pad w l) = firstn n l.
Proof. intros H. unfold pad. rewrite firstn_app. replace (n - length l)%nat with 0%nat by lia. now rewrite firstn_O, app_nil_r. Qed.

Lemma skipn_pad w l n : (n <= length l)%nat -> skipn n (pad w l) = skipn n l ++ repeat Grid.blank (w - length l).
Proof. intros H. unfold pad. rewrite skipn_app. replace (n - length l)%nat with 0%nat by lia. reflexivity. Qed.

Lemma map_repeat' {X Y} (g : X -> Y) x n : map g (repeat x n) = repeat (g x) n.
Proof. induction n; cbn; [reflexivity|now rewrite IHn]. Qed.

Lemma repeat_app_plus {X} (x : X) a b : repeat x a ++ repeat x b = repeat x (a + b).
Proof. now rewrite repeat_app. Qed.

Lemma firstn_repeat {X} (x : X) n m : firstn n (repeat x m) = repeat x (Nat.min n m).
Proof. revert m; induction n; intros [|m]; cbn; try reflexivity. now rewrite IHn. Qed.
Lemma skipn_repeat {X} (x : X) n m : skipn n (repeat x m) = repeat x (m - n).
Proof. revert m; induction n; intros [|m]; cbn; try reflexivity. apply IHn. Qed.

Theorem row_blit f x c0 c1 cols :
  0 <= c0 <= c1 -> c1 <= cols -> len f <= cols -> op_len x <= c1 - c0 ->
  exists r, setslice_with_length f c0 c1 x cols = Ok r /\
    pad (Z.to_nat cols) (cells r) =
    blit_row (Z.to_nat cols) (cells f) (op_cells x) (Z.to_nat c0) (Z.to_nat c1).
Proof.
  intros Hc Hc1 Hf Hx.
  pose proof (setslice_cells f c0 c1 x cols Hc) as H.
  pose proof (len_cells f) as HL. pose proof (op_len_cells x) as HX.
  set (l := cells f) in *. set (xs := op_cells x) in *.
  set (s := Z.to_nat c0) in *. set (e := Z.to_nat c1) in *. set (w := Z.to_nat cols) in *.
  set (n := length l) in *.
  unfold setslice_ref in H. fold n in H. rewrite blank_eq in H.
  unfold blit_row.
  destruct (Nat.ltb e n) eqn:E1.
  - (* the row continues after the region: the value is padded to the region's width *)
    apply Nat.ltb_lt in E1.
    replace (s - n)%nat with 0%nat in H by lia. cbn [repeat app] in H.
    replace (Nat.leb (length xs) (e - s)) with true in H by (symmetry; apply Nat.leb_le; lia).
    cbn [bind] in H.
    set (r := list_splice l (xs ++ repeat Grid.blank (e - s - length xs)) s e) in *.
    assert (Hr : length r = n).
    { unfold r, list_splice. rewrite !app_length, firstn_length, skipn_length, repeat_length. lia. }
    rewrite Hr in H. replace (cols <? Z.of_nat n) with false in H by lia.
    destruct (setslice_with_length f c0 c1 x cols) as [res|ex]; cbn [res_map] in H; [|discriminate].
    injection H as H. exists res. split; [reflexivity|]. rewrite H.
    unfold pad at 1. rewrite Hr. unfold r, list_splice. fold n.
    rewrite firstn_pad by (fold n; lia). rewrite skipn_pad by (fold n; lia). fold n.
    unfold pad. now rewrite <- !app_assoc.
  - (* the region reaches to or past the end of the row *)
    apply Nat.ltb_ge in E1. cbn [bind] in H.
    set (x1 := repeat Grid.blank (s - n) ++ xs) in *.
    set (r := list_splice l x1 s e) in *.
    assert (Hsk : skipn e l = []) by (apply skipn_all2; fold n; lia).
    assert (Hr : r = firstn s l ++ repeat Grid.blank (s - n) ++ xs).
    { unfold r, list_splice, x1. now rewrite Hsk, app_nil_r. }
    assert (Hrl : length r = (s + length xs)%nat).
    { rewrite Hr, !app_length, firstn_length, repeat_length. fold n. lia. }
    rewrite Hrl in H. replace (cols <? Z.of_nat (s + length xs)) with false in H by lia.
    destruct (setslice_with_length f c0 c1 x cols) as [res|ex]; cbn [res_map] in H; [|discriminate].
    injection H as H. exists res. split; [reflexivity|]. rewrite H.
    unfold pad at 1. rewrite Hrl, Hr.
    (* left part: the first s shown cells *)
    assert (HL1 : firstn s (pad w l) = firstn s l ++ repeat Grid.blank (s - n)).
    { unfold pad. rewrite firstn_app. fold n. rewrite firstn_repeat. f_equal. f_equal. lia. }
    assert (HL2 : skipn e (pad w l) = repeat Grid.blank (w - e)).
    { unfold pad. rewrite skipn_app. fold n. rewrite Hsk. cbn [app]. rewrite skipn_repeat. f_equal. lia. }
    rewrite HL1, HL2. unfold pad. rewrite <- !app_assoc. do 3 f_equal.
    rewrite repeat_app_plus. f_equal. lia.
Qed.

(* ---- the block ------------------------------------------------------------------------------ *)
Lemma map2_rows_blit cols c0 c1 :
  0 <= c0 <= c1 -> c1 <= cols ->
  forall rows items,
    Forall (fun r => len r <= cols) rows -> Forall (fun x => op_len x <= c1 - c0) items ->
    exists new, map2_res (fun fs x => setslice_with_length fs c0 c1 x cols) rows items = Ok new /\
      map (fun r => pad (Z.to_nat cols) (cells r)) new =
      blit_rows (Z.to_nat cols) (map cells rows) (map op_cells items) (Z.to_nat c0) (Z.to_nat c1).
Proof.
  intros Hc Hc1. induction rows as [|f rows IH]; intros items Hr Hi; cbn [map2_res map blit_rows].
  - exists []. split; reflexivity.
  - destruct items as [|x items]; [exists []; split; reflexivity|].
    inversion Hr as [|? ? Hf Hr']; subst. inversion Hi as [|? ? Hx Hi']; subst.
    destruct (row_blit f x c0 c1 cols Hc Hc1 Hf Hx) as (r & E & P).
    destruct (IH items Hr' Hi') as (new & E2 & P2).
    rewrite E, E2. exists (r :: new). split; [reflexivity|]. cbn [map blit_rows]. now rewrite P, P2.
Qed.

Definition grid (a : fsarr) : list (list cell) := grid_of (Z.to_nat (fa_cols a)) (map cells (fa_rows a)).

(* a block with the right number of rows, none wider than the region, assigned to
   a non-empty region inside the width: the grid becomes the blit of the grown grid *)
Theorem setitem_blit a r0 r1 c0 c1 v :
  inv a ->
  0 <= r0 < r1 -> r1 <= maxsize -> 0 <= c0 < c1 -> c1 <= fa_cols a ->
  Z.of_nat (length (value_items v)) = r1 - r0 ->
  Forall (fun x => op_len x <= c1 - c0) (value_items v) ->
  (value_is_str v = true -> c1 - c0 = 1) ->
  exists a', fsa_setitem a (Slice (Some r0) (Some r1) None) (Slice (Some c0) (Some c1) None) v = (a', Ok tt)
    /\ fa_cols a' = fa_cols a
    /\ grid a' = blit (Z.to_nat (fa_cols a)) (grow (Z.to_nat (fa_cols a)) (grid a) (Z.to_nat r1))
                      (map op_cells (value_items v)) (Z.to_nat r0) (Z.to_nat r1) (Z.to_nat c0) (Z.to_nat c1).
Proof.
  intros [Hcols Hrows] Hr Hmax Hc Hc1 Hcount Hfit Hstr.
  unfold fsa_setitem. rewrite !normalize_slice_slice.
  assert (N1 : norm_start maxsize (Some r0) = r0) by (unfold norm_start; destruct (r0 <? 0) eqn:E; lia).
  assert (N2 : norm_stop maxsize (Some r1) = r1) by (unfold norm_stop; destruct (r1 <? 0) eqn:E; lia).
  assert (N3 : norm_start (fa_cols a) (Some c0) = c0) by (unfold norm_start; destruct (c0 <? 0) eqn:E; lia).
  assert (N4 : norm_stop (fa_cols a) (Some c1) = c1) by (unfold norm_stop; destruct (c1 <? 0) eqn:E; lia).
  rewrite N1, N2, N3, N4. cbn [fst snd]. unfold slicesize. cbn [fst snd].
  set (k := Z.to_nat (Z.max 0 (r1 - Z.of_nat (length (fa_rows a))))).
  set (rows1 := fa_rows a ++ repeat (fresh_row (fa_fill a)) k).
  replace ((c1 - c0 =? 0) || (r1 - r0 =? 0)) with false by lia.
  replace ((c1 - c0 >? 1) && value_is_str v) with false.
  2:{ destruct (value_is_str v); [specialize (Hstr eq_refl)|]; lia. }
  replace (negb (r1 - r0 =? Z.of_nat (length (value_items v)))) with false by lia.
  assert (H1 : Forall (fun r => len r <= fa_cols a) rows1).
  { apply Forall_app. split; [exact Hrows|]. apply Forall_repeat. rewrite len_fresh_row. exact Hcols. }
  assert (Hlen1 : (Z.to_nat r1 <= length rows1)%nat).
  { unfold rows1. rewrite app_length, repeat_length. unfold k. lia. }
  destruct (map2_rows_blit (fa_cols a) c0 c1 ltac:(lia) Hc1
              (rows_slice rows1 r0 r1) (value_items v)
              (Forall_firstn_Z _ _ _ (Forall_skipn_Z _ _ _ H1)) Hfit) as (new & E & P).
  rewrite E. eexists. split; [reflexivity|]. split; [reflexivity|].
  unfold grid. cbn [with_rows fa_rows fa_cols]. set (w := Z.to_nat (fa_cols a)) in *.
  unfold grid_of. rewrite !map_app, !map_map. rewrite P.
  (* the grown grid is the grid of rows1 *)
  set (g := fun x : fmtstr => pad w (cells x)) in *.
  assert (G : grow w (map g (fa_rows a)) (Z.to_nat r1) = map g rows1).
  { unfold grow, rows1. rewrite !map_app, !map_length. f_equal.
    rewrite map_repeat'. unfold g. rewrite cells_fresh_row. unfold pad. cbn [app length]. rewrite Nat.sub_0_r.
    f_equal. unfold k. lia. }
  rewrite G. unfold blit. rewrite <- firstn_map, <- skipn_map. f_equal. f_equal.
  rewrite skipn_map, firstn_map. unfold rows_slice.
  set (sl := firstn (Z.to_nat r1 - Z.to_nat r0) (skipn (Z.to_nat r0) rows1)).
  assert (Hsl : Forall (fun r => len r <= fa_cols a) sl) by (apply Forall_firstn_Z, Forall_skipn_Z, H1).
  (* blit_row pads the shown row again, which is harmless *)
  clear - Hsl Hcols. revert Hsl. generalize (map op_cells (value_items v)) as block.
  induction sl as [|f sl IH]; intros block Hsl; cbn [map blit_rows]; [reflexivity|].
  destruct block as [|x block]; [reflexivity|]. inversion Hsl as [|? ? Hf Hsl']; subst.
  f_equal; [|apply IH, Hsl'].
  unfold blit_row, g. assert (Hp : pad w (pad w (cells f)) = pad w (cells f)).
  { unfold pad at 1. rewrite pad_length; [now rewrite Nat.sub_diag, app_nil_r|].
    pose proof (len_cells f). unfold w. lia. }
  now rewrite Hp.
Qed.

(* ---- what must raise ------------------------------------------------------------------------ *)
Theorem setitem_wrong_count a r0 r1 c0 c1 v :
  0 <= r0 < r1 -> r1 <= maxsize -> 0 <= c0 < c1 ->
  Z.of_nat (length (value_items v)) <> r1 - r0 ->
  exists a' e, fsa_setitem a (Slice (Some r0) (Some r1) None) (Slice (Some c0) (Some c1) None) v = (a', Raise e).
Proof.
  intros Hr Hmax Hc Hcount. unfold fsa_setitem. rewrite !normalize_slice_slice.
  assert (N1 : norm_start maxsize (Some r0) = r0) by (unfold norm_start; destruct (r0 <? 0) eqn:E; lia).
  assert (N2 : norm_stop maxsize (Some r1) = r1) by (unfold norm_stop; destruct (r1 <? 0) eqn:E; lia).
  assert (N3 : norm_start (fa_cols a) (Some c0) = c0) by (unfold norm_start; destruct (c0 <? 0) eqn:E; lia).
  assert (N4 : norm_stop (fa_cols a) (Some c1) = c1) by (unfold norm_stop; destruct (c1 <? 0) eqn:E; lia).
  rewrite N1, N2, N3, N4. cbn [fst snd]. unfold slicesize. cbn [fst snd].
  replace ((c1 - c0 =? 0) || (r1 - r0 =? 0)) with false by lia.
  destruct ((c1 - c0 >? 1) && value_is_str v); [eexists; eexists; reflexivity|].
  replace (negb (r1 - r0 =? Z.of_nat (length (value_items v)))) with true by lia.
  eexists; eexists; reflexivity.
Qed.

(* a row so long that it would reach past the array's width is rejected by setslice_with_length *)
Theorem row_too_wide f x c0 c1 cols :
  0 <= c0 <= c1 -> len f <= cols -> cols < c0 + op_len x ->
  exists e, setslice_with_length f c0 c1 x cols = Raise e.
Proof.
  intros Hc Hf Hx.
  pose proof (setslice_cells f c0 c1 x cols Hc) as H.
  pose proof (len_cells f) as HL. pose proof (op_len_cells x) as HX.
  unfold setslice_ref in H.
  destruct (setslice_with_length f c0 c1 x cols) as [r|e]; [|now exists e]. exfalso.
  cbn [res_map] in H.
  set (l := cells f) in *. set (xs := op_cells x) in *. set (n := length l) in *.
  set (x1 := repeat Splice.blank (Z.to_nat c0 - n) ++ xs) in *.
  destruct (Nat.ltb (Z.to_nat c1) n) eqn:E1.
  - destruct (Nat.leb (length x1) (Z.to_nat c1 - Z.to_nat c0)) eqn:E2; cbn [bind] in H; [|discriminate].
    apply Nat.leb_le in E2. unfold x1 in E2. rewrite app_length in E2. apply Nat.ltb_lt in E1. lia.
  - cbn [bind] in H. apply Nat.ltb_ge in E1.
    set (r' := list_splice l x1 (Z.to_nat c0) (Z.to_nat c1)) in *.
    assert (Hl : (Z.to_nat c0 + length xs <= length r')%nat).
    { unfold r', list_splice, x1. rewrite !app_length, firstn_length, repeat_length. fold n. lia. }
    destruct (cols <? Z.of_nat (length r')) eqn:E3; [discriminate|]. lia.
Qed.

(* a row longer than its region, where the existing row continues past the region *)
Theorem row_spills f x c0 c1 cols :
  0 <= c0 <= c1 -> c1 < len f -> c1 - c0 < op_len x ->
  setslice_with_length f c0 c1 x cols = Raise AssertionError.
Proof.
  intros Hc Hf Hx.
  pose proof (setslice_cells f c0 c1 x cols Hc) as H.
  pose proof (len_cells f) as HL. pose proof (op_len_cells x) as HX.
  unfold setslice_ref in H.
  replace (Nat.ltb (Z.to_nat c1) (length (cells f))) with true in H by (symmetry; apply Nat.ltb_lt; lia).
  replace (Z.to_nat c0 - length (cells f))%nat with 0%nat in H by lia. cbn [repeat app] in H.
  replace (Nat.leb (length (op_cells x)) (Z.to_nat c1 - Z.to_nat c0)) with false in H
    by (symmetry; apply Nat.leb_gt; lia).
  cbn [bind] in H. destruct (setslice_with_length f c0 c1 x cols) as [r|e]; cbn [res_map] in H; congruence.
Qed.

(* ---- reading back ----------------------------------------------------------------------------- *)
Lemma all_ok_map_getitem c0 c1 : forall rows,
  exists got, all_ok (map (fun fs => getitem fs (Slice (Some c0) (Some c1) None)) rows) = Ok got /\
    map cells got = map (fun fs => pyslice (cells fs) (Some c0) (Some c1)) rows.
Proof.
  induction rows as [|f rows [got [E P]]]; [exists []; split; reflexivity|].
  destruct (getitem_slice_cells f (Some c0) (Some c1)) as (r & Er & Pr). unfold getitem_slice in Er.
  cbn [map all_ok]. rewrite Er, E. exists (r :: got). split; [reflexivity|]. cbn [map]. now rewrite Pr, P.
Qed.

(* a[r0:r1, c0:c1] returns, row by row, the Python slice [c0:c1] of the row's cells *)
Theorem getitem_region a r0 r1 c0 c1 :
  0 <= r0 -> 0 <= r1 -> 0 <= c0 -> 0 <= c1 ->
  exists got, fsa_getitem a (Slice (Some r0) (Some r1) None) (Slice (Some c0) (Some c1) None) = Ok got /\
    map cells got = map (fun fs => pyslice (cells fs) (Some c0) (Some c1)) (rows_slice (fa_rows a) r0 r1).
Proof.
  intros H0 H1 H2 H3. unfold fsa_getitem. rewrite !normalize_slice_slice. cbn [bind].
  assert (N1 : norm_start (Z.of_nat (length (fa_rows a))) (Some r0) = r0) by (unfold norm_start; destruct (r0 <? 0) eqn:E; lia).
  assert (N2 : norm_stop (Z.of_nat (length (fa_rows a))) (Some r1) = r1) by (unfold norm_stop; destruct (r1 <? 0) eqn:E; lia).
  assert (N3 : norm_start (fa_cols a) (Some c0) = c0) by (unfold norm_start; destruct (c0 <? 0) eqn:E; lia).
  assert (N4 : norm_stop (fa_cols a) (Some c1) = c1) by (unfold norm_stop; destruct (c1 <? 0) eqn:E; lia).
  rewrite N1, N2, N3, N4. cbn [fst snd]. apply all_ok_map_getitem.
Qed.

(* non-vacuity: a concrete array and a block that meet the hypotheses of setitem_blit,
   with the region straddling the current height *)
Example setitem_blit_nonvacuous :
  let a := fsa_new 2 4 (A 0 5 0 0 0 0 0 0) in
  let v := VRows [OStr [120%N; 121%N]; OFmt [C [122%N] (A 2 0 1 0 0 0 0 0)]; OStr []] in
  inv a /\ Z.of_nat (length (value_items v)) = 4 - 1 /\
  Forall (fun x => op_len x <= 3 - 1) (value_items v) /\
  grid (fst (fsa_setitem a (Slice (Some 1) (Some 4) None) (Slice (Some 1) (Some 3) None) v)) =
    [ [Grid.blank; Grid.blank; Grid.blank; Grid.blank];
      [Grid.blank; (120%N, sgr_default); (121%N, sgr_default); Grid.blank];
      [Grid.blank; (122%N, Sg 2 0 1 0 0 0 0 0); Grid.blank; Grid.blank];
      [Grid.blank; Grid.blank; Grid.blank; Grid.blank] ].
Proof.
  cbv zeta. split; [apply new_inv; lia|]. split; [reflexivity|]. split; [repeat constructor; cbn; lia|].
  vm_compute. reflexivity.
Qed.

(* ---- fsarray(strings, width) ------------------------------------------------------------------ *)
Definition as_fs_cells (fill : atts) (o : operand) : list cell :=
  match o with OStr s => map (fun ch => (ch, eff fill)) s | OFmt f => cells f end.

Lemma fold_max_ge_acc : forall l acc, acc <= fold_left Z.max l acc.
Proof. induction l as [|z l IH]; intros acc; cbn [fold_left]; [lia|]. etransitivity; [|apply IH]. lia. Qed.

Lemma fold_max_le : forall l acc x, In x l -> x <= fold_left Z.max l acc.
Proof.
  induction l as [|y l IH]; intros acc x H; [destruct H|]. destruct H as [->|H]; cbn [fold_left].
  - etransitivity; [|apply fold_max_ge_acc]. lia.
  - apply IH, H.
Qed.

Lemma fresh_setslice_whole fill o w :
  op_len o <= w ->
  exists r, setslice_with_length (fresh_row fill) 0 (op_len o) o w = Ok r /\ cells r = op_cells o.
Proof.
  intros Hw. pose proof (op_len_cells o) as HX.
  assert (Hse : 0 <= 0 <= op_len o) by lia.
  pose proof (setslice_cells (fresh_row fill) 0 (op_len o) o w Hse) as H.
  unfold setslice_ref in H. rewrite cells_fresh_row in H. cbn [length Nat.sub repeat app Nat.ltb Nat.leb bind] in H.
  replace (Nat.ltb (Z.to_nat (op_len o)) 0) with false in H by (symmetry; apply Nat.ltb_ge; lia).
  cbn [bind] in H. unfold list_splice in H. cbn [firstn skipn app] in H.
  rewrite skipn_nil, app_nil_r in H.
  change (Z.to_nat 0) with 0%nat in H. cbn [firstn Nat.sub repeat app] in H.
  replace (w <? Z.of_nat (length (op_cells o))) with false in H by lia.
  destruct (setslice_with_length (fresh_row fill) 0 (op_len o) o w) as [r|e]; cbn [res_map] in H; [|discriminate].
  injection H as H. now exists r.
Qed.

Lemma op_len_as_fs fill o :
  op_len (match o with OStr s => OFmt [mkChunk s fill] | OFmt f => OFmt f end) = op_len o.
Proof. destruct o as [s|f]; [|reflexivity]. cbn. unfold chunk_len. cbn. lia. Qed.

Lemma op_cells_as_fs fill o :
  op_cells (match o with OStr s => OFmt [mkChunk s fill] | OFmt f => OFmt f end) = as_fs_cells fill o.
Proof. destruct o as [s|f]; [|reflexivity]. cbn. now rewrite app_nil_r. Qed.

(* fsarray(strings[, width]) with every string fitting the width: the array's rows show the strings
   (a plain str carrying the constructor's formatting), its width is the given one or the longest string's *)
Theorem fsarray_shows_strings strings width fill :
  (forall w, width = Some w -> Forall (fun o => op_len o <= w) strings) ->
  exists a, fsarray_of strings width fill = Ok a
    /\ fa_cols a = match width with Some w => w | None => fold_left Z.max (map op_len strings) 0 end
    /\ map cells (fa_rows a) = map (as_fs_cells fill) strings.
Proof.
  intros Hw. unfold fsarray_of.
  set (w := match width with Some w => w | None => fold_left Z.max (map op_len strings) 0 end).
  assert (Hfit : Forall (fun o => op_len o <= w) strings).
  { destruct width as [w0|]; [apply Hw; reflexivity|].
    apply Forall_forall. intros o Ho. unfold w. apply fold_max_le, in_map, Ho. }
  replace (match width with Some w0 => existsb (fun l => l >? w0) (map op_len strings) | None => false end) with false.
  2:{ destruct width as [w0|]; [|reflexivity]. symmetry. apply not_true_is_false. intros E.
      apply existsb_exists in E as (l & Hl & Hgt). apply in_map_iff in Hl as (o & <- & Ho).
      specialize (Hw w0 eq_refl). rewrite Forall_forall in Hw. specialize (Hw o Ho). lia. }
  assert (M : exists rows,
    map2_res (fun fs s => setslice_with_length fs 0 (op_len s)
                (match s with OStr s0 => OFmt [mkChunk s0 fill] | OFmt f => OFmt f end) w)
             (repeat (fresh_row fill) (length strings)) strings = Ok rows
    /\ map cells rows = map (as_fs_cells fill) strings).
  { clear Hw. clearbody w. induction strings as [|o strings IH]; [exists []; split; reflexivity|].
    inversion Hfit as [|? ? Ho Hrest]; subst. destruct (IH Hrest) as (rows & E & P).
    cbn [length repeat map2_res map].
    destruct (fresh_setslice_whole fill (match o with OStr s0 => OFmt [mkChunk s0 fill] | OFmt f => OFmt f end) w) as (r & Er & Pr).
    { rewrite op_len_as_fs. exact Ho. }
    rewrite op_len_as_fs in Er. rewrite Er, E. exists (r :: rows). split; [reflexivity|].
    cbn [map]. now rewrite Pr, op_cells_as_fs, P. }
  destruct M as (rows & E & P). fold w. rewrite E. eexists. split; [reflexivity|]. split; [reflexivity|exact P].
Qed.
