(* Shared by the tie proofs of the slicing algorithms of FmtStr (Proofs/PureTieGetitem.v,
   PureTieDivides.v, PureTieWas.v, PureTieFsWas.v): symbolic execution of Gen/PureFmt.v trees
   in the contexts of Spec/PyEnvFmt.v when part of the environment is only known through what
   [lookup] gives (the loop invariants of Proofs/PyStep.v [for_loop_model]), the lemmas about
   the oracles and the generated getters of Chunk, and list lemmas about the interpreter's
   sequence functions.  The tactics look names up in the generated tree; no proof mentions a
   variable name of the Python. *)
From Coq Require Import String Lia ZifyBool ZifyNat ZifyN.
From Curtsies Require Import Model.Base Model.Splice Spec.ListOps Spec.PyMini Gen.Pure Gen.PureFmt Spec.PyEnvFmt
  Model.Slice Model.Width Proofs.PyStep Proofs.PureTieBase Proofs.PureTieSlice Proofs.PureTieOverlap.
Local Open Scope Z_scope.

(* ---- lookup in an environment whose tail is a variable ------------------------------------- *)
(* [lookup] is kept folded during symbolic execution; this resolves every lookup in the goal:
   through the known bindings by computation of the name test, in the unknown tail by the
   hypotheses about it *)
Ltac lk :=
  cbn [lookup String.eqb Ascii.eqb Bool.eqb];
  repeat match goal with
         | H : lookup ?x ?r = _ |- context [lookup ?x ?r] => rewrite H
         end.

(* ---- names, read off the generated tree ------------------------------------------------------ *)
Fixpoint first_for (l : list stmt) : option (target * expr * list stmt) :=
  match l with
  | [] => None
  | SFor t it body :: _ => Some (t, it, body)
  | _ :: l' => first_for l'
  end.
Definition first_mutated (l : list stmt) : string := hd EmptyString (flat_map mutated l).
(* the name bound to the first value of the environment that satisfies p *)
Fixpoint name_of (p : val -> bool) (r : env) : string :=
  match r with
  | [] => EmptyString
  | (x, v) :: r' => if p v then x else name_of p r'
  end.
(* the loop-carried scalar variables: assigned in the body of the loop and already bound when it
   is entered (a name that is only assigned inside the body is a temporary of one round), the
   lists that grow by append / extend apart.  An invariant says what they hold. *)
Fixpoint dedup (l : list string) : list string :=
  match l with
  | [] => []
  | x :: l' => if mem_string x l' then dedup l' else x :: dedup l'
  end.
Definition carried (body : list stmt) (r0 : env) : list string :=
  filter (fun x => mem_string x (assigned_block body) && negb (mem_string x (flat_map mutated body)))
         (dedup (map fst r0)).
Fixpoint holds (names : list string) (v : val) (r : env) : Prop :=
  match names with
  | [] => True
  | x :: l => lookup x r = Some v /\ holds l v r
  end.
Ltac split_holds H :=
  cbn [holds] in H;
  repeat match type of H with
         | _ /\ _ => let H1 := fresh "Hv" in destruct H as [H1 H]
         end.

(* the variables a loop leaves alone: part of its invariant *)
Fixpoint keeps (names : list string) (r0 r : env) : Prop :=
  match names with
  | [] => True
  | x :: l => lookup x r = lookup x r0 /\ keeps l r0 r
  end.
(* one hypothesis per name, with what the name held at the entry of the loop made explicit *)
Ltac split_keeps H :=
  cbn [keeps] in H;
  repeat match type of H with
         | _ /\ _ =>
             let H1 := fresh "Hk" in
             destruct H as [H1 H];
             cbn [lookup String.eqb Ascii.eqb Bool.eqb] in H1;
             repeat match goal with
                    | H2 : lookup ?x ?r = _ |- _ =>
                        match type of H1 with _ = lookup x r => rewrite H2 in H1 end
                    end
         end.

Definition is_vslice (v : val) : bool := match v with VSlice _ _ _ => true | _ => false end.

(* ---- list lemmas ---------------------------------------------------------------------------------- *)
Lemma sequence_map_ok : forall l, sequence (map Ok l) = Ok l.
Proof. induction l as [|v l IH]; [reflexivity|]. cbn [map sequence]. rewrite IH. reflexivity. Qed.

Lemma sequence_map_ok' : forall {X} (g : X -> val) l, sequence (map (fun x => Ok (g x)) l) = Ok (map g l).
Proof. intros X g l. induction l as [|v l IH]; [reflexivity|]. cbn [map sequence]. rewrite IH. reflexivity. Qed.

Lemma slice_list_pyslice : forall {X} (l : list X) lo hi, slice_list l lo hi = pyslice l lo hi.
Proof.
  intros X l lo hi. unfold slice_list, pyslice, slice_bound, clip.
  destruct lo as [a|], hi as [b|]; repeat f_equal; try lia.
  all: repeat match goal with |- context [if ?c then _ else _] => destruct c end; lia.
Qed.

Lemma is_nil_map : forall {X Y} (g : X -> Y) l, is_nil (map g l) = is_nil l.
Proof. intros X Y g [|x l]; reflexivity. Qed.

(* "".join(list of one-character strs) *)
Lemma pieces_chars : forall l, pieces true (map (fun ch => VStr [ch]) l) = Some (map (fun ch => [ch]) l).
Proof. induction l as [|c l IH]; [reflexivity|]. cbn [map pieces]. rewrite IH. reflexivity. Qed.

Lemma intercalate_nil : forall ps, intercalate [] ps = concat ps.
Proof.
  intros [|p ps]; [reflexivity|]. cbn [intercalate concat].
  assert (H : flat_map (fun q : list N => [] ++ q) ps = concat ps).
  { induction ps as [|q ps IH]; [reflexivity|]. cbn [flat_map concat]. rewrite IH. reflexivity. }
  rewrite H. reflexivity.
Qed.

Lemma concat_singletons : forall {X} (l : list X), concat (map (fun c => [c]) l) = l.
Proof. induction l as [|c l IH]; [reflexivity|]. cbn [map concat]. rewrite IH. reflexivity. Qed.

Lemma join_chars : forall l, PyMini.join true [] (VList (map (fun ch => VStr [ch]) l)) = Ok (VStr l).
Proof.
  intro l. unfold PyMini.join. cbn [iter_items]. rewrite sequence_map_ok, pieces_chars, intercalate_nil, concat_singletons.
  reflexivity.
Qed.

Lemma concat_repeat1 : forall {X} (x : X) n, concat (repeat [x] n) = repeat x n.
Proof. induction n as [|n IH]; [reflexivity|]. cbn [repeat concat]. rewrite IH. reflexivity. Qed.

(* l[:-1] and l[1:] *)
Lemma slice_list_removelast : forall {X} (l : list X), slice_list l None (Some (-1)) = removelast l.
Proof.
  intros X l. unfold slice_list, clip. cbn [skipn Z.to_nat].
  replace (-1 <? 0) with true by reflexivity.
  rewrite removelast_firstn_len. f_equal. lia.
Qed.

Lemma slice_list_tl : forall {X} (l : list X), slice_list l (Some 1) None = tl l.
Proof.
  intros X l. unfold slice_list, clip. replace (1 <? 0) with false by reflexivity.
  destruct l as [|x l]; [reflexivity|].
  cbn [List.length]. replace (Z.to_nat (Z.min 1 (Z.of_nat (S (List.length l))))) with 1%nat by lia.
  cbn [skipn tl]. apply firstn_all2. lia.
Qed.

(* ---- the items of the second loop of width_aware_slice -------------------------------------------
   [wc] is the width function (cwcwidth.wcwidth); the column boundaries pos, pos + w1, ... and the
   triples (char, where it starts, where it ends) that zip(s, divides[:-1], divides[1:]) yields *)
Fixpoint psums (wc : char -> Z) (pos : Z) (s : str) : list Z :=
  pos :: match s with
         | [] => []
         | ch :: r => psums wc (pos + wc ch) r
         end.
Fixpoint triples (wc : char -> Z) (pos : Z) (s : str) : list (char * Z * Z) :=
  match s with
  | [] => []
  | ch :: r => (ch, pos, pos + wc ch) :: triples wc (pos + wc ch) r
  end.
Definition embed_triple (x : char * Z * Z) : val :=
  VTuple [VStr [fst (fst x)]; VInt (snd (fst x)); VInt (snd x)].

Lemma psums_cons : forall wc pos s, exists l, psums wc pos s = pos :: l.
Proof. intros wc pos [|ch r]; eexists; reflexivity. Qed.

Lemma zip3_triples : forall wc s pos,
  zip3 (map (fun ch => VStr [ch]) s) (removelast (map VInt (psums wc pos s))) (tl (map VInt (psums wc pos s)))
  = map embed_triple (triples wc pos s).
Proof.
  intros wc. induction s as [|ch s IH]; intro pos; [reflexivity|].
  cbn [psums triples]. specialize (IH (pos + wc ch)).
  destruct (psums_cons wc (pos + wc ch) s) as [l Hl]. rewrite Hl in *.
  cbn [map tl] in *.
  change (removelast (VInt pos :: VInt (pos + wc ch) :: map VInt l))
    with (VInt pos :: removelast (VInt (pos + wc ch) :: map VInt l)).
  cbn [zip3]. rewrite IH. reflexivity.
Qed.

(* x[-1] of a list whose last element is known *)
Lemma index_last : forall pre x,
  PyMini.index (VList (map VInt (pre ++ [x]))) (VInt (-1)) = Ok (VInt x).
Proof.
  intros pre x. unfold PyMini.index. cbn [as_int].
  rewrite map_length, app_length. cbn [List.length].
  replace (-1 <? 0) with true by reflexivity.
  replace (-1 + Z.of_nat (List.length pre + 1)) with (Z.of_nat (List.length pre)) by lia.
  replace (Z.of_nat (List.length pre) <? 0) with false by lia.
  replace (Z.of_nat (List.length pre) >=? Z.of_nat (List.length pre + 1)) with false by lia.
  cbn [orb]. rewrite Nat2Z.id, map_app, nth_error_app2 by (rewrite map_length; lia).
  rewrite map_length, Nat.sub_diag. reflexivity.
Qed.

(* ---- the model's lengths ------------------------------------------------------------------------- *)
Lemma chunk_len_nonneg : forall ch, (chunk_len ch <? 0) = false.
Proof. intro ch. unfold chunk_len. lia. Qed.

Lemma fold_len_from : forall f a, fold_left (fun acc c => acc + chunk_len c) f a = a + Slice.len f.
Proof.
  unfold Slice.len. induction f as [|c f IH]; intro a; cbn [fold_left]; [lia|].
  rewrite IH, (IH (0 + chunk_len c)). lia.
Qed.

Lemma len_nonneg : forall f, (Slice.len f <? 0) = false.
Proof.
  induction f as [|c f IH]; [reflexivity|]. unfold Slice.len in *. cbn [fold_left].
  rewrite fold_len_from. pose proof (chunk_len_nonneg c). unfold Slice.len. lia.
Qed.

(* ---- objects ---------------------------------------------------------------------------------------- *)
Lemma chunk_str_embed : forall ch, chunk_str (embed_chunk ch) = Some (c_s ch).
Proof. reflexivity. Qed.

Lemma chunk_strs_embed : forall f, chunk_strs (map embed_chunk f) = Some (map c_s f).
Proof. induction f as [|c f IH]; [reflexivity|]. cbn [map chunk_strs]. rewrite chunk_str_embed, IH. reflexivity. Qed.

Lemma fmt_strs_embed : forall f, fmt_strs (embed_fmtstr f) = Some (map c_s f).
Proof. intro f. cbn. apply chunk_strs_embed. Qed.

Lemma sum_lengths_from : forall ss a,
  fold_left (fun acc s => acc + Z.of_nat (List.length s)) ss a = a + sum_lengths ss.
Proof.
  unfold sum_lengths. induction ss as [|s ss IH]; intro a; cbn [fold_left]; [lia|].
  rewrite IH, (IH (0 + _)). lia.
Qed.

Lemma sum_lengths_len : forall f, sum_lengths (map c_s f) = Slice.len f.
Proof.
  induction f as [|c f IH]; [reflexivity|]. unfold sum_lengths, Slice.len in *. cbn [map fold_left].
  rewrite sum_lengths_from, fold_len_from. unfold sum_lengths, Slice.len, chunk_len. rewrite IH. reflexivity.
Qed.

(* oracle: len(fs) *)
Lemma oracle_len_embed : forall f, oracle_FmtStr_len [embed_fmtstr f] = Ok (VInt (Slice.len f)).
Proof. intro f. unfold oracle_FmtStr_len. rewrite fmt_strs_embed, sum_lengths_len. reflexivity. Qed.

(* oracle: fs.s *)
Lemma concat_map_text : forall f, concat (map c_s f) = text f.
Proof. intro f. unfold text. rewrite flat_map_concat_map. reflexivity. Qed.

Lemma oracle_s_embed : forall f, oracle_FmtStr_s [embed_fmtstr f] = Ok (VStr (text f)).
Proof. intro f. unfold oracle_FmtStr_s. rewrite fmt_strs_embed, concat_map_text. reflexivity. Qed.

(* oracles: chunk.width, fs.width *)
Lemma str_width_chunk_width : forall wc ch, str_width wc (c_s ch) = chunk_width wc ch.
Proof.
  intros wc ch. unfold str_width, chunk_width.
  destruct (c_s ch) as [|x l]; [reflexivity|].
  replace (Z.of_nat (List.length (x :: l)) >? 0) with true by (cbn [List.length]; lia). reflexivity.
Qed.

Lemma oracle_chunk_width_embed : forall wc ch,
  oracle_Chunk_width wc [embed_chunk ch] = match chunk_width wc ch with Ok w => Ok (VInt w) | Raise e => Raise e end.
Proof. intros wc ch. unfold oracle_Chunk_width. rewrite chunk_str_embed, str_width_chunk_width. reflexivity. Qed.

Lemma sum_widths_fs_width : forall wc f, sum_widths wc (map c_s f) = fs_width wc f.
Proof.
  intros wc. induction f as [|c f IH]; [reflexivity|].
  cbn [map sum_widths fs_width]. rewrite str_width_chunk_width, IH.
  destruct (chunk_width wc c) as [w|e]; [|reflexivity]. cbn [bind]. destruct (fs_width wc f); reflexivity.
Qed.

Lemma oracle_fs_width_embed : forall wc f,
  oracle_FmtStr_width wc [embed_fmtstr f] = match fs_width wc f with Ok w => Ok (VInt w) | Raise e => Raise e end.
Proof. intros wc f. unfold oracle_FmtStr_width. rewrite fmt_strs_embed, sum_widths_fs_width. reflexivity. Qed.

(* oracle: fmtstr(s) for a str without an escape introducer *)
Lemma oracle_fmtstr_plain : forall s, has_esc_intro s = false ->
  oracle_fmtstr [VStr s] = Ok (embed_fmtstr (fmtstr_plain s)).
Proof. intros s H. unfold oracle_fmtstr. rewrite H. reflexivity. Qed.

(* the runs with a non-empty text (kept folded during symbolic execution) *)
Definition nonempty_chunks (l : list chunk) : list chunk := filter (fun c => negb (is_empty (c_s c))) l.

(* the generated getters of Chunk: run here, once, for every chunk (three small tie proofs) *)
Lemma sem_Chunk_s_embed : forall ch, sem_Chunk_s [embed_chunk ch] = Ok (VStr (c_s ch)).
Proof.
  intro ch. unfold sem_Chunk_s, call.
  first [ reflexivity
        | fail 1 "TIE BROKEN: the repository's curtsies.formatstring.Chunk.s no longer returns the run's text" ].
Qed.

Lemma sem_Chunk_atts_embed : forall ch, sem_Chunk_atts [embed_chunk ch] = Ok (VDict (embed_atts (c_a ch))).
Proof.
  intro ch. unfold sem_Chunk_atts, call.
  first [ reflexivity
        | fail 1 "TIE BROKEN: the repository's curtsies.formatstring.Chunk.atts no longer returns the run's attributes" ].
Qed.

Lemma sem_Chunk_len_embed : forall ch, sem_Chunk_len [embed_chunk ch] = Ok (VInt (chunk_len ch)).
Proof.
  intro ch. unfold sem_Chunk_len, call.
  first [ reflexivity
        | fail 1 "TIE BROKEN: the repository's curtsies.formatstring.Chunk.__len__ no longer returns the length of the run's text" ].
Qed.

(* the index argument of FmtStr.width_aware_slice (Model/Width.v has its own index type: an int,
   or a slice without step) as the index of Model/Slice.v *)
Definition to_index (ix : Width.index) : Slice.index :=
  match ix with
  | IxInt i => Idx i
  | IxSlice a b => Slice a b None
  end.
Definition embed_windex (ix : Width.index) : val := embed_index (to_index ix).

Lemma normalize_slice_ws : forall n ix, normalize_slice n (to_index ix) = ws_normalize_slice n ix.
Proof.
  intros n [i | a b]; unfold normalize_slice, ws_normalize_slice; cbn [to_index bind].
  - destruct ((i <? - n) || (i >=? n)) eqn:E0; [reflexivity|]. cbn [bind].
    destruct (i <? 0) eqn:E.
    + replace (i + n <? 0) with false by lia. replace (i + n + 1 <? 0) with false by lia. reflexivity.
    + rewrite E. replace (i + 1 <? 0) with false by lia. reflexivity.
  - reflexivity.
Qed.

(* results *)
Definition embed_fs_res (r : res fmtstr) : res val :=
  match r with Ok g => Ok (embed_fmtstr g) | Raise e => Raise e end.

(* ---- symbolic execution ------------------------------------------------------------------------------- *)
(* everything is computed, except: the statement evaluator and the loop (unfolded one statement
   at a time), [lookup] (the tail of the environment may be a variable), the callees and the
   oracles that read objects (replaced by their lemmas), list functions applied to variables,
   integer arithmetic, and the model's functions *)
Ltac fcbv :=
  cbv - [exec exec_block for_loop lookup
         sem_normalize_slice sem_interval_overlap sem_Chunk_s sem_Chunk_atts sem_Chunk_len
         sem_width_aware_slice
         oracle_FmtStr_len oracle_FmtStr_s oracle_Chunk_width oracle_FmtStr_width
         oracle_Chunk oracle_FmtStr oracle_fmtstr oracle_wcwidth oracle_wcswidth no_method
         embed_index embed_atts c_s c_a pyslice keeps holds psums triples removelast tl to_index
         List.map List.app List.length List.concat List.repeat slice_list sequence is_nil PyMini.join zip3 PyMini.index
         list_eqb N.eqb
         Z.of_nat Z.to_nat Z.gtb Z.ltb Z.sub Z.max Z.min Z.add Z.geb Z.leb Z.eqb Z.opp
         Slice.len chunk_len normalize_slice getitem getitem_loop loop_model round_post loop_post
         interval_overlap wcswidth was_chars was_char was_str was_walk fs_was fs_width chunk_width
         ws_normalize_slice text str_width
         sem_FmtStr_divides gen_filter Splice.divides Splice.divides_from splice_items splice_step nonempty_chunks
         sem_FmtStr_splice sem_FmtStr_add sem_FmtStr_radd sem_FmtStr_setslice_with_length embed_operand
         Slice.add Slice.radd Splice.splice Splice.append Splice.setslice_with_length Splice.setitem spaces str_plus plus_str].
Ltac fcbv_in H :=
  cbv - [exec exec_block for_loop lookup
         sem_normalize_slice sem_interval_overlap sem_Chunk_s sem_Chunk_atts sem_Chunk_len
         sem_width_aware_slice
         oracle_FmtStr_len oracle_FmtStr_s oracle_Chunk_width oracle_FmtStr_width
         oracle_Chunk oracle_FmtStr oracle_fmtstr oracle_wcwidth oracle_wcswidth no_method
         embed_index embed_atts c_s c_a pyslice keeps holds psums triples removelast tl to_index
         List.map List.app List.length List.concat List.repeat slice_list sequence is_nil PyMini.join zip3 PyMini.index
         list_eqb N.eqb
         Z.of_nat Z.to_nat Z.gtb Z.ltb Z.sub Z.max Z.min Z.add Z.geb Z.leb Z.eqb Z.opp
         Slice.len chunk_len normalize_slice getitem getitem_loop loop_model round_post loop_post
         interval_overlap wcswidth was_chars was_char was_str was_walk fs_was fs_width chunk_width
         ws_normalize_slice text str_width
         sem_FmtStr_divides gen_filter Splice.divides Splice.divides_from splice_items splice_step nonempty_chunks
         sem_FmtStr_splice sem_FmtStr_add sem_FmtStr_radd sem_FmtStr_setslice_with_length embed_operand
         Slice.add Slice.radd Splice.splice Splice.append Splice.setslice_with_length Splice.setitem spaces str_plus plus_str] in H.

(* the prelude of [call_in] (parameter binding, [mut_ok], the local names) appends closed lists *)
Ltac pcbv :=
  cbv - [exec exec_block for_loop lookup
         sem_normalize_slice sem_interval_overlap sem_Chunk_s sem_Chunk_atts sem_Chunk_len
         sem_width_aware_slice
         oracle_FmtStr_len oracle_FmtStr_s oracle_Chunk_width oracle_FmtStr_width
         oracle_Chunk oracle_FmtStr oracle_fmtstr oracle_wcwidth oracle_wcswidth no_method
         embed_index embed_atts c_s c_a pyslice keeps holds psums triples removelast tl to_index
         List.map List.length List.concat List.repeat slice_list sequence is_nil PyMini.join zip3 PyMini.index
         list_eqb N.eqb
         Z.of_nat Z.to_nat Z.gtb Z.ltb Z.sub Z.max Z.min Z.add Z.geb Z.leb Z.eqb Z.opp
         Slice.len chunk_len normalize_slice getitem getitem_loop loop_model round_post loop_post
         interval_overlap wcswidth was_chars was_char was_str was_walk fs_was fs_width chunk_width
         ws_normalize_slice text str_width
         sem_FmtStr_divides gen_filter Splice.divides Splice.divides_from splice_items splice_step nonempty_chunks
         sem_FmtStr_splice sem_FmtStr_add sem_FmtStr_radd sem_FmtStr_setslice_with_length embed_operand
         Slice.add Slice.radd Splice.splice Splice.append Splice.setslice_with_length Splice.setitem spaces str_plus plus_str].

(* an instance of a lemma, brought to the normal form of [fcbv] and rewritten with *)
Ltac rew_norm L :=
  let H := fresh "Hn" in pose proof L as H; fcbv_in H; rewrite H; clear H.

(* callees and oracles applied to embedded objects *)
Ltac object_step :=
  match goal with
  | |- context [sem_Chunk_len (cons (VRec _ (cons ( _, VStr (c_s ?ch)) _)) nil)] => rew_norm (sem_Chunk_len_embed ch)
  | |- context [sem_Chunk_s (cons (VRec _ (cons ( _, VStr (c_s ?ch)) _)) nil)] => rew_norm (sem_Chunk_s_embed ch)
  | |- context [sem_Chunk_atts (cons (VRec _ (cons ( _, VStr (c_s ?ch)) _)) nil)] => rew_norm (sem_Chunk_atts_embed ch)
  | |- context [oracle_FmtStr_len (cons (VRec _ (cons ( _, VList (map _ ?f)) nil)) nil)] => rew_norm (oracle_len_embed f)
  | |- context [oracle_FmtStr_s (cons (VRec _ (cons ( _, VList (map _ ?f)) nil)) nil)] => rew_norm (oracle_s_embed f)
  | |- context [oracle_Chunk ?a] =>
      let v := eval cbv beta iota delta [oracle_Chunk mk_chunk] in (oracle_Chunk a) in change (oracle_Chunk a) with v
  | |- context [oracle_FmtStr ?a] =>
      let v := eval cbv beta iota delta [oracle_FmtStr mk_fmtstr] in (oracle_FmtStr a) in change (oracle_FmtStr a) with v
  | H : has_esc_intro ?s = false |- context [oracle_fmtstr (cons (VStr ?s) nil)] => rew_norm (oracle_fmtstr_plain s H)
  | |- context [oracle_fmtstr ?a] =>
      let v := eval cbv in (oracle_fmtstr a) in change (oracle_fmtstr a) with v
  | |- context [oracle_wcwidth ?w ?a] =>
      let v := eval cbv beta iota delta [oracle_wcwidth] in (oracle_wcwidth w a) in change (oracle_wcwidth w a) with v
  | |- context [oracle_wcswidth ?w ?a] =>
      let v := eval cbv beta iota delta [oracle_wcswidth] in (oracle_wcswidth w a) in change (oracle_wcswidth w a) with v
  | |- context [sequence (map (fun x => Ok (@?g x)) ?l)] => rewrite (sequence_map_ok' g l)
  | |- context [PyMini.join true nil (VList (map (fun ch => VStr (cons ch nil)) ?l))] => rewrite (join_chars l)
  | |- context [oracle_Chunk_width ?w (cons (VRec _ (cons ( _, VStr (c_s ?ch)) _)) nil)] => rew_norm (oracle_chunk_width_embed w ch)
  | |- context [oracle_FmtStr_width ?w (cons (VRec _ (cons ( _, VList (map _ ?f)) nil)) nil)] => rew_norm (oracle_fs_width_embed w f)
  | |- context [(chunk_len ?ch <? 0)] => rewrite (chunk_len_nonneg ch)
  | |- context [(Slice.len ?f <? 0)] => rewrite (len_nonneg f)
  | |- context [sequence (map Ok ?l)] => rewrite (sequence_map_ok l)
  | |- context [is_nil (map ?g ?l)] => rewrite (is_nil_map g l)
  | |- context [PyMini.index (VList (map VInt (?pre ++ (cons ?x nil)))) (VInt ?k)] =>
      let k' := eval cbv in k in
      lazymatch k' with (-1)%Z => change k with (-1)%Z; rewrite (index_last pre x) end
  | |- context [is_nil (@nil ?T)] => change (is_nil (@nil T)) with true
  | |- context [is_nil (@cons ?T ?x ?l)] => change (is_nil (@cons T x l)) with false
  end.

(* an integer comparison the evaluation (or the model) is stuck on: decided from what is known,
   else a case split *)
Ltac decide_atom t :=
  first [ replace t with true by lia
        | replace t with false by lia
        | let E := fresh "E" in destruct t eqn:E ].
Ltac decide_cmp :=
  match goal with
  | |- context [(?a <? ?b)%Z] => decide_atom (a <? b)%Z
  | |- context [(?a >? ?b)%Z] => decide_atom (a >? b)%Z
  | |- context [(?a <=? ?b)%Z] => decide_atom (a <=? b)%Z
  | |- context [(?a >=? ?b)%Z] => decide_atom (a >=? b)%Z
  | |- context [(?a =? ?b)%Z] => decide_atom (a =? b)%Z
  end.

(* calls of the generated helpers that are tied elsewhere: replaced by what their models compute *)
Ltac callee_step :=
  match goal with
  | |- context [sem_normalize_slice (cons (VInt ?n) (cons (embed_index ?i) nil))] =>
      change (sem_normalize_slice [VInt n; embed_index i]) with (call py_normalize_slice [VInt n; embed_index i]);
      rewrite (normalize_slice_tie n i)
  | |- context [sem_interval_overlap (cons (VInt ?a) (cons (VInt ?b) (cons (VInt ?x) (cons (VInt ?y) nil))))] =>
      change (sem_interval_overlap [VInt a; VInt b; VInt x; VInt y])
        with (call py_interval_overlap [VInt a; VInt b; VInt x; VInt y]);
      rewrite (interval_overlap_tie a b x y)
  end.

(* what was already learnt about a quantity (the equations left by case splits) *)
Ltac use_eqns :=
  repeat match goal with
         | H : ?t = Ok _ |- context [?t] => rewrite H
         | H : ?t = Raise _ |- context [?t] => rewrite H
         | H : ?t = true |- context [?t] => rewrite H
         | H : ?t = false |- context [?t] => rewrite H
         | H : ?t = nil |- context [?t] => lazymatch t with lookup _ _ => fail | _ => rewrite H end
         | H : ?t = cons _ _ |- context [?t] => lazymatch t with lookup _ _ => fail | _ => rewrite H end
         end.

(* one statement at a time; whatever the evaluation is stuck on is resolved by [lk] (a lookup),
   [object_step] (an oracle / a getter on an embedded object, a length test), [callee_step], or
   the function-specific [resolve] *)
Ltac frun resolve :=
  repeat first [ py_unfold1; fcbv | progress lk; fcbv | object_step; fcbv | callee_step; fcbv
               | progress resolve; fcbv ].

(* the `for` the execution has arrived at, against a model of it: [step] on the items [xs]
   (the iterable has been evaluated to [map Ok (map emb xs)]), invariant [R].  Leaves the
   obligation about one round of the body, and the rest of the function with the fact [HL]
   about the outcome of the loop. *)
Ltac prove_inv0 :=
  hnf; cbv beta iota; cbn [fst snd map keeps holds];
  repeat match goal with |- _ /\ _ => split end;
  cbn [lookup String.eqb Ascii.eqb Bool.eqb]; first [ reflexivity | exact I ].

Ltac loop_assert c t body emb xs r0 step R :=
  match goal with
  | |- context [for_loop c t body ?items r0] =>
      let HL := fresh "HL" in
      assert (HL : forall st0, R st0 r0 -> loop_post R (loop_model step st0 xs) (for_loop c t body items r0));
      [ let st0 := fresh "st0" in let HR0 := fresh "HR0" in
        intros st0 HR0; apply (for_loop_model c t body emb step R); [ clear st0 HR0 | exact HR0 ] | ]
  end.
Ltac loop_with step R :=
  match goal with
  | |- context [for_loop ?c ?t ?body (map Ok (map ?emb ?xs)) ?r0] =>
      rewrite (map_map emb Ok xs); cbv beta;
      loop_assert c t body emb xs r0 step R
  | |- context [for_loop ?c ?t ?body (map (fun x => Ok (@?emb x)) ?xs) ?r0] =>
      loop_assert c t body emb xs r0 step R
  end.

(* after the loop: name its outcome, keep what [HL] says about it *)
Ltac after_loop HL st0 :=
  let H := fresh "HL" in
  assert (H := HL st0); clear HL;
  match type of H with
  | _ -> loop_post _ _ (for_loop ?a1 ?a2 ?a3 ?a4 ?a5) =>
      let o := fresh "o" in
      set (o := for_loop a1 a2 a3 a4 a5) in *;
      specialize (H ltac:(prove_inv0));
      destruct o as [?rr|?vv|?ee|?rr|?rr]; cbn [loop_post] in H
  end.

(* ---- closing one round of a loop ---------------------------------------------------------------
   the goal is [round_post R (model step) (outcome of the body)] with the outcome computed: decide
   the tests of the model from what the path of the execution has established, then the
   outcome must be the prescribed one and the invariant must hold of the new environment *)
Ltac same_value :=
  cbv beta iota; cbn [fst snd map c_s c_a];
  rewrite ?map_app; cbn [map c_s c_a]; rewrite ?slice_list_pyslice, ?app_nil_r, ?concat_repeat1;
  first [ reflexivity | solve [repeat (f_equal; try lia)] ].
Ltac prove_inv :=
  cbv beta iota; cbn [fst snd keeps holds];
  repeat match goal with |- _ /\ _ => split end;
  lk; first [ exact I | same_value ].
Ltac close_round :=
  use_eqns; cbv beta iota delta [bind];
  repeat (decide_cmp; cbv beta iota delta [andb orb negb]);
  cbv [round_post];
  first [ solve [eexists; split; [reflexivity | prove_inv]]
        | solve [reflexivity]
        | solve [exfalso; lia] ].

(* the end of a run: both sides are values *)
Ltac same_result := first [ reflexivity | cbv; reflexivity ].

(* the translator replaces a function it can not translate by a stub that raises: say so, instead
   of failing somewhere inside the proof *)
Ltac not_a_stub f :=
  let b := eval cbv in (f_body f) in
  lazymatch b with
  | cons (SRaise OtherError) nil =>
      fail 0 "TIE BROKEN:" f "is outside the Python subset the translator handles (see the TIE-ERROR line of gen/gen_pure.py): its model is no longer tied to the text in the repository"
  | _ => idtac
  end.
