(* shared by the ties of the methods that call splice (Proofs/PureTieAppend.v, PureTieSetslice.v,
   PureTieSetitem.v: each theorem in a file of its own): a call of the generated splice is replaced by
   what its tie theorem says; padding with spaces keeps a str free of escape introducers *)
From Coq Require Import String Lia ZifyBool ZifyNat ZifyN.
From Curtsies Require Import Model.Base Model.Splice Spec.ListOps Spec.PyMini Gen.Pure Gen.PureFmt Spec.PyEnvFmt
  Model.Slice Proofs.PyStep Proofs.PureTieBase Proofs.PureTieFmtBase Proofs.PureTieSplice.
Local Open Scope Z_scope.

(* ---- padding with spaces keeps a str free of escape introducers -------------------------------------- *)
Lemma has_esc_space : forall l, has_esc_intro (32%N :: l) = has_esc_intro l.
Proof. intros [|d l]; reflexivity. Qed.

Lemma has_esc_spaces_l : forall n t, has_esc_intro (repeat 32%N n ++ t) = has_esc_intro t.
Proof. induction n as [|n IH]; intro t; [reflexivity|]. cbn [repeat app]. rewrite has_esc_space. apply IH. Qed.

Lemma has_esc_spaces_r : forall n t, has_esc_intro (t ++ repeat 32%N n) = has_esc_intro t.
Proof.
  intros n t. induction t as [|c r IH].
  - cbn [app]. rewrite <- (app_nil_r (repeat 32%N n)). apply has_esc_spaces_l.
  - cbn [app]. destruct r as [|d r'].
    + cbn [app]. destruct n as [|n]; [reflexivity|]. cbn [repeat].
      change (has_esc_intro [c]) with (N.eqb c 155 || false).
      change (has_esc_intro (c :: 32%N :: repeat 32%N n))
        with (N.eqb c 155 || ((N.eqb c 27 && N.eqb 32 91) || has_esc_intro (32%N :: repeat 32%N n))).
      rewrite has_esc_space. rewrite <- (app_nil_r (repeat 32%N n)), has_esc_spaces_l.
      cbn. rewrite Bool.andb_false_r. reflexivity.
    + change (has_esc_intro (c :: (d :: r') ++ repeat 32%N n))
        with (N.eqb c 155 || ((N.eqb c 27 && N.eqb d 91) || has_esc_intro ((d :: r') ++ repeat 32%N n))).
      rewrite IH. reflexivity.
Qed.

Lemma plain_ostr : forall t, has_esc_intro t = false -> operand_plain (OStr t) = true.
Proof. intros t H. cbn [operand_plain]. rewrite H. reflexivity. Qed.

(* ---- the callees, replaced by what their tie theorems say ------------------------------------------------ *)
(* an argument value, read back as the operand it embeds *)
Ltac operand_of v :=
  lazymatch v with
  | embed_operand ?o => constr:(o)
  | VStr ?t => constr:(OStr t)
  | VRec _ (cons (_, VList (map _ ?g)) nil) => constr:(OFmt g)
  end.

Ltac plain_side :=
  first [ reflexivity
        | apply plain_ostr; rewrite ?concat_repeat1, ?has_esc_spaces_r, ?has_esc_spaces_l; assumption
        | assumption ].

Ltac splice_call_step :=
  match goal with
  | |- context [sem_FmtStr_splice (cons (VRec ?c (cons (?n, VList (map ?e ?f)) nil)) (cons ?v (cons (VInt ?a) nil)))] =>
      let o := operand_of v in
      change (sem_FmtStr_splice [VRec c [(n, VList (map e f))]; v; VInt a])
        with (call_in ctxF3 py_FmtStr_splice [embed_fmtstr f; embed_operand o; VInt a]);
      rewrite (splice_tie_default f o a) by plain_side
  | |- context [sem_FmtStr_splice (cons (VRec ?c (cons (?n, VList (map ?e ?f)) nil))
                                        (cons ?v (cons (VInt ?a) (cons (VInt ?b) nil))))] =>
      let o := operand_of v in
      change (sem_FmtStr_splice [VRec c [(n, VList (map e f))]; v; VInt a; VInt b])
        with (call_in ctxF3 py_FmtStr_splice [embed_fmtstr f; embed_operand o; VInt a; embed_optZ (Some b)]);
      rewrite (splice_tie f o a (Some b)) by plain_side
  end.
