(* curtsies.formatstring.FmtStr.width_aware_slice: repository text = model, for all FmtStrs, all
   indices and EVERY width function wc (the oracle for cwcwidth.wcwidth / wcswidth) *)
From Coq Require Import String Lia ZifyBool ZifyNat ZifyN.
From Curtsies Require Import Model.Base Spec.ListOps Spec.PyMini Gen.Pure Gen.PureFmt Spec.PyEnvFmt
  Model.Slice Model.Width Proofs.PyStep Proofs.PureTieBase Proofs.PureTieSlice Proofs.PureTieFmtBase
  Proofs.PureTieWas.
Local Open Scope Z_scope.

Section FsWas.
Variable wc : char -> Z.

(* what one run contributes (the [part] of Model/Width.v [was_walk]) *)
Definition fw_part (start stop counter w : Z) (ch : chunk) : list chunk :=
  if (start <? counter + w) && (stop >=? counter) then
    let s_part := was_str wc (c_s ch) (start - counter) (stop - counter) in
    if str_eqb s_part (c_s ch) then [ch]
    else match s_part with
         | [] => []
         | _ => [mkChunk s_part (c_a ch)]
         end
  else [].

(* the loop of the model as a step function *)
Definition fw_step (start stop : Z) (st : Z * list chunk) (ch : chunk) : lres (Z * list chunk) :=
  match chunk_width wc ch with
  | Raise e => LRaise e
  | Ok w =>
      let parts' := snd st ++ fw_part start stop (fst st) w ch in
      if stop <? fst st + w then LBreak (fst st + w, parts') else LNext (fst st + w, parts')
  end.

Lemma fw_step_eq : forall start stop counter parts ch,
  fw_step start stop (counter, parts) ch =
  match chunk_width wc ch with
  | Raise e => LRaise e
  | Ok w => if stop <? counter + w then LBreak (counter + w, parts ++ fw_part start stop counter w ch)
            else LNext (counter + w, parts ++ fw_part start stop counter w ch)
  end.
Proof. reflexivity. Qed.

Lemma fw_loop_model : forall start stop chunks counter parts,
  match was_walk wc chunks start stop counter with
  | Ok ps => exists c', loop_model (fw_step start stop) (counter, parts) chunks = Ok (c', parts ++ ps)
  | Raise e => loop_model (fw_step start stop) (counter, parts) chunks = Raise e
  end.
Proof.
  intros start stop chunks. induction chunks as [|ch chunks IH]; intros counter parts.
  - cbn [was_walk loop_model]. exists counter. rewrite app_nil_r. reflexivity.
  - cbn [was_walk loop_model]. rewrite fw_step_eq.
    destruct (chunk_width wc ch) as [w|e]; cbn [bind]; [|reflexivity].
    fold (fw_part start stop counter w ch).
    destruct (stop <? counter + w).
    + eexists. reflexivity.
    + specialize (IH (counter + w) (parts ++ fw_part start stop counter w ch)).
      destruct (was_walk wc chunks start stop (counter + w)) as [ps|e]; cbn [bind].
      * destruct IH as [c' IH]. exists c'. rewrite IH, app_assoc. reflexivity.
      * exact IH.
Qed.

Theorem fs_width_aware_slice_tie : forall f ix,
  call_in (ctxF2 wc) py_FmtStr_width_aware_slice [embed_fmtstr f; embed_windex ix]
  = embed_fs_res (fs_was wc f ix).
Proof.
  not_a_stub py_FmtStr_width_aware_slice.
  intros f ix. unfold call_in, embed_windex. pcbv.
  frun ltac:(idtac; first [ decide_cmp
                          | match goal with
                            | |- context [match fs_width wc f with _ => _ end] => destruct (fs_width wc f) as [wd|e] eqn:Ew
                            | |- context [normalize_slice ?n (to_index ?i)] =>
                                rewrite (normalize_slice_ws n i); destruct (ws_normalize_slice n i) as [[start stop]|e] eqn:En
                            end ]).
  (* the exits before the loop *)
  all: try solve [ unfold fs_was; use_eqns; cbv beta iota delta [bind];
                   repeat (decide_cmp; cbv beta iota); use_eqns; cbv beta iota delta [bind]; reflexivity ].
  (* the loop *)
  match goal with
  | |- context [for_loop ?c ?t ?body _ ?r0] =>
      let cns := eval cbv in (carried body r0) in
      let pn := eval cbv in (first_mutated body) in
      let ixn := eval cbv in (name_of is_vslice r0) in
      pose (R := fun (st : Z * list chunk) (r : env) =>
                   holds cns (VInt (fst st)) r
                   /\ lookup pn r = Some (VList (map embed_chunk (snd st)))
                   /\ lookup ixn r = Some (VSlice (VInt start) (VInt stop) VNone))
  end.
  loop_with (fw_step start stop) R.
  - intros [counter parts] ch r (Hc & Hp & Hi). cbn [fst snd] in Hc, Hp. fcbv_in Hp. split_holds Hc.
    fcbv.
    match goal with |- round_post ?R' ?m ?o => remember (round_post R' m) as K eqn:HK end.
    frun ltac:(idtac; first [ decide_cmp
                            | match goal with
                              | H : chunk_width wc ?c = _ |- context [chunk_width wc ?c] => rewrite H
                              | |- context [match chunk_width wc ?c with _ => _ end] => destruct (chunk_width wc c) as [w|e] eqn:Ecw
                              | |- context [sem_width_aware_slice wc (cons (VStr ?s) (cons (VInt ?a) (cons (VInt ?b) nil)))] =>
                                  change (sem_width_aware_slice wc [VStr s; VInt a; VInt b])
                                    with (call_in (ctxF1 wc) py_width_aware_slice [VStr s; VInt a; VInt b]);
                                  rewrite (width_aware_slice_tie wc s a b)
                              | |- context [list_eqb N.eqb ?x ?y] => destruct (list_eqb N.eqb x y) eqn:Eeq
                              | |- context [is_nil (was_str wc ?s ?a ?b)] => destruct (was_str wc s a b) eqn:Ews
                              end ]).
    all: subst K.
    all: first [ close_round
               | fail 1 "TIE BROKEN: the repository's curtsies.formatstring.FmtStr.width_aware_slice no longer computes what the model computes (loop body)" ].
  - after_loop HL (0, @nil chunk).
    all: try contradiction.
    all: unfold fs_was;
         repeat first [ progress use_eqns | progress cbv beta iota delta [bind fst snd] | decide_cmp ];
         generalize (fw_loop_model start stop f 0 []);
         destruct (was_walk wc f start stop 0) as [ps|e']; cbv beta iota delta [bind]; intro Hm.
    all: match type of Hm with ex _ => destruct Hm as [c' Hm] | _ => idtac end; rewrite Hm in HL0;
         try discriminate;
         try match type of HL0 with ex _ => let x := fresh in let H := fresh in destruct HL0 as [x [H _]]; discriminate H end.
    + destruct HL0 as [st [Hs (Hc & Hp & Hi)]]. injection Hs as <-. cbn [fst snd app] in Hc, Hp. fcbv_in Hp. split_holds Hc.
      frun ltac:(idtac; match goal with
                        | |- context [is_nil ps] => destruct ps
                        end).
      all: first [ same_result
                 | fail 1 "TIE BROKEN: the repository's curtsies.formatstring.FmtStr.width_aware_slice no longer computes what the model computes" ].
    + injection HL0 as <-. reflexivity.
Qed.
End FsWas.
