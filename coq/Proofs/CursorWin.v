(* C07: CursorAwareWindow.render_to_terminal keeps the history intact and accounts
   for every scroll, after any history of renders, from any initial terminal.
   Layered on the C01 theorem (Proofs/RenderSgr.v) and on the row lemmas of C02
   (Proofs/Fullscreen.v): the loops over the rows that fit are the same code. *)
From Curtsies Require Import Model.Base Gen.Tables Model.Render Spec.Sgr Spec.Term Spec.Show Spec.Doc
     Model.Fullscreen Model.CursorWin Proofs.RenderSgr Proofs.TermLemmas Proofs.TermLemmas2 Proofs.Fullscreen.
From Coq Require Import Arith Lia.
Close Scope N_scope.
Local Open Scope nat_scope.

(* ---- small facts ------------------------------------------------------------------- *)
Lemma clip_id w l : flen l <= w -> clip w l = l.
Proof. intros H. unfold clip. destruct (Nat.ltb_spec w (flen l)); [lia | reflexivity]. Qed.

(* rows no wider than the terminal: the content loop is FullscreenWindow's (which clips) *)
Lemma cw_content_rows_eq w old : forall lines row,
  Forall (fun l => flen l <= w) lines -> cw_content_rows w old row lines = content_rows w old row lines.
Proof.
  induction lines as [|l rest IH]; intros row H; [reflexivity|].
  inversion H as [|? ? Hl Hr]; subst. cbn [cw_content_rows content_rows].
  rewrite (clip_id w l Hl). rewrite (IH (S row) Hr). reflexivity.
Qed.

Lemma skipn_seq : forall k a n, skipn k (seq a n) = seq (a + k) (n - k).
Proof.
  induction k as [|k IH]; intros a n.
  - now rewrite Nat.add_0_r, Nat.sub_0_r.
  - destruct n as [|n]; [reflexivity|]. cbn [seq skipn]. rewrite IH. now rewrite Nat.add_succ_r.
Qed.

Lemma nth_skipn {X} (d : X) : forall s l i, nth i (skipn s l) d = nth (s + i) l d.
Proof.
  induction s as [|s IH]; intros l i; [reflexivity|].
  destruct l as [|x l]; [now destruct i|]. cbn [skipn Nat.add nth]. apply IH.
Qed.

Lemma Forall_skipn {X} (P : X -> Prop) : forall n l, Forall P l -> Forall P (skipn n l).
Proof.
  induction n as [|n IH]; intros l H; [exact H|]. destruct H as [|x l Hx Hl]; [constructor|].
  cbn [skipn]. apply IH, Hl.
Qed.

Lemma rekey_lookup : forall c r, lookup (rekey c) r = lookup c (S r).
Proof.
  induction c as [|[k v] c IH]; intros r; [reflexivity|].
  destruct k as [|k]; cbn [rekey lookup]; [apply IH|].
  cbn [Nat.eqb]. destruct (k =? r); [reflexivity | apply IH].
Qed.

(* ---- writing a row without erasing the rest of the line ---------------------------- *)
Lemma write_noel t row line :
  t_sgr t = sgr_default -> clean line = true -> flen line <= t_w t -> row < t_h t -> 1 <= t_w t ->
  exists t', execs t [Cup row 0; Str (render line)] = Some t'
    /\ same_frame t t' /\ t_sgr t' = sgr_default /\ t_visible t' = t_visible t
    /\ (forall r c, scr t' r c = if (r =? row) && (c <? flen line) then nth c (cells line) blank else scr t r c).
Proof.
  intros Hg Hc Hlen Hrow Hw.
  destruct (exec_cup t row 0) as (t1 & E1 & F1 & G1 & V1 & S1 & R1 & C1 & P1).
  rewrite Nat.min_l in R1 by lia. rewrite Nat.min_l in C1 by lia.
  assert (ES : exec t1 (Str (render line)) = Some (with_sgr sgr_default (puts (cells line) t1))).
  { cbn [exec]. rewrite G1, Hg. pose proof (render_displays line Hc) as D. unfold display in D. now rewrite D. }
  destruct F1 as (F1h & F1w & F1a & F1b).
  assert (Hfit : t_col t1 + length (cells line) <= t_w t1) by (rewrite C1, F1w, cells_length; lia).
  assert (Hcol : t_col t1 < t_w t1) by (rewrite C1, F1w; lia).
  destruct (puts_fits (cells line) t1 P1 Hfit Hcol) as (F2 & G2 & V2 & R2 & S2 & C2). cbv zeta in *.
  set (t2 := with_sgr sgr_default (puts (cells line) t1)) in *.
  destruct F2 as (F2h & F2w & F2a & F2b).
  exists t2. cbn [execs]. rewrite E1, ES. split; [reflexivity|].
  unfold t2, same_frame. rewrite ?abuf_with_sgr. cbn [with_sgr t_h t_w t_in_alt t_visible t_sgr].
  split; [repeat split; congruence|]. split; [reflexivity|]. split; [congruence|].
  intros r c. rewrite scr_with_sgr, S2, R1, C1, S1, cells_length. cbn [Nat.leb andb Nat.add].
  rewrite andb_true_r. now rewrite Nat.sub_0_r.
Qed.

(* ---- one iteration of the scroll loop ------------------------------------------------
   scroll_down, then the line on the bottom row WITHOUT clear_eol: the line that
   appears at the bottom is fresh (erased), so the row shows exactly the line.
   In document terms: one more line below what was the bottom of the screen. *)
Lemma scroll_iter far t line :
  t_in_alt t = false -> t_sgr t = sgr_default -> 1 <= t_h t -> 1 <= t_w t -> t_h t - 1 <= far ->
  clean line = true -> flen line <= t_w t ->
  exists t', execs t (scroll_down far ++ [Cup (t_h t - 1) 0; Str (render line)]) = Some t' /\
    t_h t' = t_h t /\ t_w t' = t_w t /\ t_in_alt t' = false /\ t_sgr t' = sgr_default /\
    t_visible t' = t_visible t /\ dbase t' = S (dbase t) /\
    (forall L c, dline t' L c = if L =? dbase t + t_h t then nth c (cells line) blank else dline t L c).
Proof.
  intros A G Hh Hw Hfar Hc Hlen.
  destruct (exec_scroll_down far t A Hh Hfar) as (t1 & E1 & H1h & H1w & A1 & G1 & V1 & _ & _ & _ & B1 & D1).
  destruct (write_noel t1 (t_h t - 1) line) as (t2 & E2 & F2 & G2 & V2 & S2); try lia; try congruence.
  exists t2. unfold scroll_down. rewrite execs_app, E1, E2.
  destruct (same_frame_main t1 t2 F2 A1) as [A2 B2].
  pose proof (execs_main_le _ _ _ E2) as M2.
  pose proof F2 as F2'. destruct F2 as (F2h & F2w & _ & _).
  repeat split; try congruence.
  intros L c. rewrite (dline_of_scr t1 t2 F2' A1 M2).
  rewrite B1, S2, D1.
  destruct (Nat.eqb_spec L (dbase t + t_h t)) as [->|Hne].
  - replace (dbase t + t_h t <? S (dbase t)) with false by (symmetry; apply Nat.ltb_ge; lia).
    replace (dbase t + t_h t - S (dbase t)) with (t_h t - 1) by lia. rewrite Nat.eqb_refl. cbn [andb].
    destruct (Nat.ltb_spec c (flen line)) as [Lc|Lc]; [reflexivity|].
    rewrite (scr_dline t1) by exact A1. rewrite B1, D1.
    replace (S (dbase t) + (t_h t - 1)) with (dbase t + t_h t) by lia. rewrite Nat.eqb_refl.
    rewrite G, erased_default. symmetry. apply nth_overflow. now rewrite cells_length.
  - destruct (Nat.ltb_spec L (S (dbase t))) as [Lb|Lb]; [reflexivity|].
    replace (L - S (dbase t) =? t_h t - 1) with false by (symmetry; apply Nat.eqb_neq; lia). cbn [andb].
    rewrite (scr_dline t1) by exact A1. rewrite B1, D1.
    replace (S (dbase t) + (L - S (dbase t))) with L by lia.
    now replace (L =? dbase t + t_h t) with false by (symmetry; apply Nat.eqb_neq; lia).
Qed.

(* ---- the scroll loop -------------------------------------------------------------------
   carries the row cache through the re-keying: after every iteration the cache is
   sound for the rows from the (lowered) top usable row down *)
Lemma scroll_rows_ok far : forall lines cur top off t ks c' top' off',
  t_in_alt t = false -> t_sgr t = sgr_default -> 1 <= t_h t -> 1 <= t_w t -> t_h t - 1 <= far ->
  Forall (fun l => clean l = true) lines -> Forall (fun l => flen l <= t_w t) lines ->
  (lines <> [] -> cur <> []) ->
  (forall r, top <= r -> r < t_h t -> entry_sound cur t r) ->
  scroll_rows far (t_h t) lines cur top off = (ks, c', top', off') ->
  exists t', execs t ks = Some t' /\
    t_h t' = t_h t /\ t_w t' = t_w t /\ t_in_alt t' = false /\ t_sgr t' = sgr_default /\
    t_visible t' = t_visible t /\ dbase t' = dbase t + length lines /\
    (forall L c, dline t' L c =
       if (dbase t + t_h t <=? L) && (L <? dbase t + t_h t + length lines)
       then nth c (cells (nth (L - (dbase t + t_h t)) lines [])) blank else dline t L c) /\
    top' = top - length lines /\ off' = off + (length lines - top) /\
    (forall r, top' <= r -> r < t_h t -> entry_sound c' t' r).
Proof.
  induction lines as [|line rest IH]; intros cur top off t ks c' top' off' A G Hh Hw Hfar Hcl Hwd Hne Hsound E.
  - cbn [scroll_rows] in E. inversion E; subst. exists t. cbn [execs length].
    repeat split; try lia; try assumption.
    intros L c. destruct (Nat.leb_spec (dbase t + t_h t) L), (Nat.ltb_spec L (dbase t + t_h t + 0)); cbn [andb]; try reflexivity; lia.
  - cbn [scroll_rows] in E.
    set (top1 := if 0 <? top then top - 1 else top) in *.
    set (off1 := if 0 <? top then off else S off) in *.
    set (cur1 := (t_h t - 1, Some line) :: rekey cur) in *.
    destruct (scroll_rows far (t_h t) rest cur1 top1 off1) as [[[ks1 c1] tp1] o1] eqn:E1.
    inversion E; subst ks c' top' off'. clear E.
    inversion Hcl as [|? ? Hc0 Hcr]; subst. inversion Hwd as [|? ? Hw0 Hwr]; subst.
    destruct (scroll_iter far t line A G Hh Hw Hfar Hc0 Hw0) as (t1 & X1 & H1h & H1w & A1 & G1 & V1 & B1 & D1).
    assert (Hcur : cur <> []) by (apply Hne; discriminate).
    (* the screen after the iteration, row by row *)
    assert (S1 : forall r c, scr t1 r c = if r =? t_h t - 1 then nth c (cells line) blank else scr t (S r) c).
    { intros r c. rewrite (scr_dline t1) by exact A1. rewrite B1, D1.
      destruct (Nat.eqb_spec r (t_h t - 1)) as [->|Hr].
      - replace (S (dbase t) + (t_h t - 1) =? dbase t + t_h t) with true by (symmetry; apply Nat.eqb_eq; lia). reflexivity.
      - destruct (Nat.eqb_spec (S (dbase t) + r) (dbase t + t_h t)); [lia|].
        rewrite (scr_dline t) by exact A. f_equal. lia. }
    assert (Hsound1 : forall r, top1 <= r -> r < t_h t1 -> entry_sound cur1 t1 r).
    { intros r Hr1 Hr2. rewrite H1h in Hr2. unfold entry_sound, cur1. cbn [lookup].
      destruct (Nat.eqb_spec (t_h t - 1) r) as [Er|Er].
      - split; [exact Hc0|]. intros c Hcw. rewrite S1. subst r. now rewrite Nat.eqb_refl.
      - rewrite rekey_lookup.
        assert (Hs : entry_sound cur t (S r)).
        { apply Hsound; [|lia]. unfold top1 in Hr1. destruct (Nat.ltb_spec 0 top); lia. }
        unfold entry_sound in Hs.
        assert (T : forall l, row_shows t (S r) l -> row_shows t1 r l).
        { intros l Hl c Hcw. rewrite S1. replace (r =? t_h t - 1) with false by (symmetry; apply Nat.eqb_neq; lia).
          apply Hl. congruence. }
        destruct (lookup cur (S r)) as [[l|]|].
        + destruct Hs as [Hl1 Hl2]. split; [exact Hl1 | now apply T].
        + now apply T.
        + intros _. apply T, Hs, Hcur. }
    rewrite <- H1h in E1.
    destruct (IH cur1 top1 off1 t1 ks1 c1 tp1 o1) as (t2 & X2 & H2h & H2w & A2 & G2 & V2 & B2 & D2 & T2 & O2 & S2); try assumption; try lia.
    { now rewrite H1w. } { intros _. unfold cur1. discriminate. }
    exists t2. split.
    { change (execs t ((scroll_down far ++ [Cup (t_h t - 1) 0; Str (render line)]) ++ ks1) = Some t2).
      rewrite execs_app, X1. exact X2. }
    cbn [length]. repeat split; try congruence; try lia.
    + intros L c. rewrite D2, D1, B1, H1h.
      destruct (Nat.eqb_spec L (dbase t + t_h t)) as [->|Hn].
      * replace (S (dbase t) + t_h t <=? dbase t + t_h t) with false by (symmetry; apply Nat.leb_gt; lia). cbn [andb].
        rewrite Nat.leb_refl. replace (dbase t + t_h t <? dbase t + t_h t + S (length rest)) with true by (symmetry; apply Nat.ltb_lt; lia).
        cbn [andb]. now rewrite Nat.sub_diag.
      * destruct (Nat.leb_spec (S (dbase t) + t_h t) L) as [L1|L1], (Nat.leb_spec (dbase t + t_h t) L) as [L2|L2]; try lia; cbn [andb]; try reflexivity.
        replace (L <? dbase t + t_h t + S (length rest)) with (L <? S (dbase t) + t_h t + length rest) by (f_equal; lia).
        destruct (L <? S (dbase t) + t_h t + length rest); [|reflexivity].
        replace (L - (dbase t + t_h t)) with (S (L - (S (dbase t) + t_h t))) by lia. reflexivity.
    + unfold top1 in T2. destruct (Nat.ltb_spec 0 top); lia.
    + unfold top1, off1 in O2. destruct (Nat.ltb_spec 0 top); lia.
    + intros r Hr1 Hr2. apply S2; [exact Hr1 | congruence].
Qed.

(* ---- the window's invariant ----------------------------------------------------------- *)
(* what the cache claims, when it is in force (same size as last rendered): every
   row from the top usable row down *)
Definition cw_cache_sound (ws : cwwin) (t : term) : Prop :=
  cw_last ws = Some (t_h t, t_w t) ->
  forall r, cw_top ws <= r -> r < t_h t -> entry_sound (cw_cache ws) t r.

Definition CwInv (ws : cwwin) (t : term) : Prop :=
  t_in_alt t = false /\ t_sgr t = sgr_default /\ 1 <= t_w t /\ cw_top ws < t_h t /\ cw_cache_sound ws t.

(* hide the cursor first / place it and show it again last: the document is not touched *)
Lemma head_hide t (hide : bool) :
  exists t', execs t (if hide then [] else [Hide]) = Some t' /\ t_main t' = t_main t /\
    t_h t' = t_h t /\ t_w t' = t_w t /\ t_in_alt t' = t_in_alt t /\ t_sgr t' = t_sgr t /\
    t_visible t' = (if hide then t_visible t else false).
Proof. destruct hide; eexists; (split; [reflexivity|]); repeat split. Qed.

Lemma tail_cursor t r c (hide : bool) :
  exists t', execs t ([Cup r c] ++ (if hide then [] else [Show])) = Some t' /\ t_main t' = t_main t /\
    t_h t' = t_h t /\ t_w t' = t_w t /\ t_in_alt t' = t_in_alt t /\ t_sgr t' = t_sgr t /\
    t_row t' = Nat.min r (t_h t - 1) /\ t_col t' = Nat.min c (t_w t - 1) /\
    t_visible t' = (if hide then t_visible t else true).
Proof. destruct hide; eexists; (split; [reflexivity|]); repeat split. Qed.

Lemma scr_same_main t t' r c :
  t_main t' = t_main t -> t_in_alt t = false -> t_in_alt t' = false -> scr t' r c = scr t r c.
Proof. intros M A A'. unfold scr, abuf. now rewrite A, A', M. Qed.

(* ---- one render -------------------------------------------------------------------------- *)
Theorem cw_render_correct far ws t a cur :
  CwInv ws t -> t_h t - 1 <= far ->
  Forall (fun l => clean l = true) a -> Forall (fun l => flen l <= t_w t) a ->
  fst cur < Nat.max (length a) (t_h t - cw_top ws) -> snd cur < t_w t ->
  let res := cw_render far ws (t_h t) (t_w t) a cur in
  let ws' := snd (fst res) in
  exists t', execs t (fst (fst res)) = Some t'
    /\ CwInv ws' t'
    /\ render_spec t t' (cw_top ws) a
    /\ cw_top ws' = top_after (t_h t) (cw_top ws) (length a)
    /\ snd res = pushed_off (t_h t) (cw_top ws) (length a)
    /\ t_row t' = cursor_row_after (t_h t) (cw_top ws) (length a) (fst cur) /\ t_col t' = snd cur
    /\ t_visible t' = (if cw_hide ws then t_visible t else true)
    /\ cw_hide ws' = cw_hide ws /\ cw_keep ws' = cw_keep ws /\ cw_last ws' = Some (t_h t, t_w t).
Proof.
  intros (A & G & Hw & Htop & Hcs) Hfar Hclean Hwide Hcr Hcc. cbv zeta. unfold cw_render.
  set (changed := match cw_last ws with Some (lh, lw) => negb ((lh =? (t_h t)) && (lw =? (t_w t))) | None => true end).
  set (old := if changed then [] else cw_cache ws).
  assert (Hold : forall r, (cw_top ws) <= r -> r < (t_h t) -> entry_sound old t r).
  { intros r Hr1 Hr2. unfold old. destruct changed eqn:EC.
    - unfold entry_sound. cbn [lookup]. congruence.
    - apply Hcs; try assumption. unfold changed in EC. destruct (cw_last ws) as [[lh lw]|]; [|discriminate].
      apply negb_false_iff, andb_true_iff in EC as [E1 E2]. apply Nat.eqb_eq in E1, E2. now subst. }
  rewrite seq_length.
  set (shared := Nat.min (length a) ((t_h t) - (cw_top ws))).
  (* hide the cursor *)
  destruct (head_hide t (cw_hide ws)) as (t0 & E0 & M0 & H0h & H0w & A0 & G0 & V0).
  rewrite A in A0.
  assert (S0 : forall r c, scr t0 r c = scr t r c) by (intros; now apply scr_same_main).
  assert (Hold0 : forall r, (cw_top ws) <= r -> r < t_h t0 -> entry_sound old t0 r).
  { intros r Hr1 Hr2. apply (entry_sound_same old t t0 r H0w); [intros c; apply S0 | apply Hold; [exact Hr1 | congruence]]. }
  (* rows with content *)
  assert (Hl1 : length (firstn shared a) = shared) by (rewrite firstn_length; unfold shared; lia).
  assert (Hw1 : Forall (fun l => flen l <= (t_w t)) (firstn shared a)) by (apply Forall_firstn', Hwide).
  rewrite (cw_content_rows_eq (t_w t) old (firstn shared a) (cw_top ws) Hw1).
  destruct (content_rows_ok (firstn shared a) (cw_top ws) old t0) as (t1 & E1 & F1 & G1 & V1 & R1 & O1 & K1).
  { congruence. } { lia. } { rewrite Hl1, H0h. unfold shared. lia. }
  { apply Forall_firstn', Hclean. } { exact Hold0. }
  rewrite H0w in E1, R1, K1. rewrite Hl1 in R1, O1, K1.
  destruct (content_rows (t_w t) old (cw_top ws) (firstn shared a)) as [k1 c1] eqn:EC1. cbn [fst snd] in E1, K1.
  destruct F1 as (F1h & F1w & F1a & F1b).
  (* rows without content *)
  rewrite skipn_seq.
  set (rows := seq ((cw_top ws) + shared) ((t_h t) - (cw_top ws) - shared)).
  destruct (blank_rows_ok rows old t1) as (t2 & E2 & F2 & G2 & V2 & R2 & O2 & K2).
  { exact G1. } { lia. }
  { intros r Hr. apply in_seq in Hr. rewrite F1h, H0h. lia. }
  { apply seq_NoDup. }
  { intros r Hr. apply in_seq in Hr.
    apply (entry_sound_same old t0 t1 r F1w).
    - intros c. apply O1. right. lia.
    - apply Hold0; [lia | rewrite H0h; lia]. }
  destruct (blank_rows old rows) as [k2 c2] eqn:EC2. cbn [fst snd] in E2, K2.
  destruct F2 as (F2h & F2w & F2a & F2b).
  assert (A2 : t_in_alt t2 = false) by congruence.
  assert (H2h : t_h t2 = (t_h t)) by congruence.
  assert (H2w : t_w t2 = (t_w t)) by congruence.
  assert (B2 : dbase t2 = dbase t).
  { unfold dbase. rewrite <- M0. unfold abuf in F1b, F2b. rewrite A2 in F2b.
    assert (A1 : t_in_alt t1 = false) by congruence. rewrite A1 in F2b, F1b. rewrite A0 in F1b. congruence. }
  (* the screen after the two loops *)
  assert (Scontent : forall r, (cw_top ws) <= r -> r < (cw_top ws) + shared -> row_shows t2 r (cells (nth (r - (cw_top ws)) a []))).
  { intros r Hr1 Hr2 c Hc. rewrite O2 by (unfold rows; rewrite in_seq; lia).
    specialize (R1 (r - (cw_top ws)) ltac:(lia)). replace ((cw_top ws) + (r - (cw_top ws))) with r in R1 by lia.
    rewrite R1 by congruence.
    rewrite (nth_firstn_lt ([] : fmtstr) shared a (r - (cw_top ws))) by lia.
    rewrite clip_id; [reflexivity|].
    rewrite Forall_forall in Hwide. apply Hwide, nth_In. unfold shared in Hr2. lia. }
  assert (Sblank : forall r, (cw_top ws) + shared <= r -> r < (t_h t) -> row_shows t2 r []).
  { intros r Hr1 Hr2. apply R2. unfold rows. rewrite in_seq. lia. }
  assert (Sabove : forall r c, r < (cw_top ws) -> scr t2 r c = scr t r c).
  { intros r c Hr. rewrite O2 by (unfold rows; rewrite in_seq; lia). rewrite O1 by lia. apply S0. }
  assert (K12 : forall r, lookup (c1 ++ c2) r =
            if ((cw_top ws) <=? r) && (r <? (cw_top ws) + shared) then Some (Some (nth (r - (cw_top ws)) a [])) else lookup c2 r).
  { intros r. rewrite lookup_app, K1. destruct (((cw_top ws) <=? r) && (r <? (cw_top ws) + shared)) eqn:EK; [|reflexivity].
    apply andb_true_iff in EK as [EK1 EK2]. apply Nat.leb_le in EK1. apply Nat.ltb_lt in EK2.
    rewrite (nth_firstn_lt ([] : fmtstr) shared a (r - (cw_top ws))) by lia.
    rewrite clip_id; [reflexivity|].
    rewrite Forall_forall in Hwide. apply Hwide, nth_In. unfold shared in EK2. lia. }
  assert (Hsound2 : forall r, (cw_top ws) <= r -> r < t_h t2 -> entry_sound (c1 ++ c2) t2 r).
  { intros r Hr1 Hr2. rewrite H2h in Hr2. unfold entry_sound. rewrite K12.
    destruct (Nat.ltb_spec r ((cw_top ws) + shared)) as [L|L].
    - replace ((cw_top ws) <=? r) with true by (symmetry; apply Nat.leb_le; lia). cbn [andb]. split.
      + rewrite Forall_forall in Hclean. apply Hclean, nth_In. unfold shared in L. lia.
      + apply Scontent; lia.
    - rewrite andb_false_r. destruct (K2 r) as [-> | ->]; [intros _|]; apply Sblank; assumption. }
  (* the lines that need scrolling *)
  set (rest := skipn shared a).
  assert (Hlr : length rest = (length a) - ((t_h t) - (cw_top ws))) by (unfold rest; rewrite skipn_length; unfold shared; lia).
  destruct (scroll_rows far (t_h t) rest (c1 ++ c2) (cw_top ws) 0) as [[[k3 c3] top'] off] eqn:E3.
  rewrite <- H2h in E3.
  destruct (scroll_rows_ok far rest (c1 ++ c2) (cw_top ws) 0 t2 k3 c3 top' off) as
    (t3 & X3 & H3h & H3w & A3 & G3 & V3 & B3 & D3 & T3 & O3 & S3); try assumption; try lia.
  { apply Forall_skipn, Hclean. } { rewrite H2w. apply Forall_skipn, Hwide. }
  { intros Hne. assert (Hpos : 0 < length rest) by (destruct rest; [congruence | cbn; lia]).
    intros Hnil. specialize (K12 (cw_top ws)). rewrite Hnil in K12. cbn [lookup] in K12.
    rewrite Nat.leb_refl in K12. replace ((cw_top ws) <? (cw_top ws) + shared) with true in K12 by (symmetry; apply Nat.ltb_lt; unfold shared; lia).
    discriminate. }
  rewrite H2h in D3, S3. rewrite B2 in B3, D3.
  (* place the cursor, show it again *)
  set (crow := fst cur + top' - off).
  destruct (tail_cursor t3 crow (snd cur) (cw_hide ws)) as (t4 & E4 & M4 & H4h & H4w & A4 & G4 & R4 & C4 & V4).
  rewrite A3 in A4.
  assert (S4 : forall r c, scr t4 r c = scr t3 r c) by (intros; now apply scr_same_main).
  assert (D4 : forall L c, dline t4 L c = dline t3 L c) by (intros; unfold dline; now rewrite M4).
  assert (B4 : dbase t4 = dbase t + length rest) by (unfold dbase in *; now rewrite M4).
  exists t4. cbn [fst snd].
  split.
  { rewrite execs_app, E0, execs_app, E1, execs_app, E2, execs_app, X3. exact E4. }
  assert (Hk : surplus (t_h t) (cw_top ws) (length a) = length rest) by (unfold surplus; lia).
  assert (Htop' : top' = top_after (t_h t) (cw_top ws) (length a)) by (unfold top_after; rewrite Hk; exact T3).
  assert (Hoff : off = pushed_off (t_h t) (cw_top ws) (length a)) by (unfold pushed_off, top_after; rewrite Hk; lia).
  (* lines of the document that were there before the scroll loop *)
  assert (D2 : forall L c, dline t2 L c = if L <? dbase t then dline t L c else scr t2 (L - dbase t) c).
  { intros L c.
    assert (F02 : same_frame t0 t2) by (repeat split; congruence).
    assert (M02 : main_le t0 t2) by (eapply main_le_trans; eapply execs_main_le; eassumption).
    rewrite (dline_of_scr t0 t2 F02 A0 M02). unfold dbase, dline. now rewrite M0. }
  split; [|split; [|split; [|split; [|split; [|split; [|split]]]]]].
  - (* the invariant for the next call *)
    unfold CwInv. cbn [cw_top cw_cache cw_last cw_hide cw_keep cw_cache_sound].
    repeat split; try congruence.
    + rewrite H4h, H3h, H2h. lia.
    + intros _ r Hr1 Hr2. cbn [cw_top cw_cache] in *.
      apply (entry_sound_same c3 t3 t4 r H4w); [intros c; apply S4|].
      apply S3; [exact Hr1 | congruence].
  - (* the property *)
    constructor.
    + rewrite B4. lia.
    + intros L c HL. rewrite D4, D3.
      replace (dbase t + (t_h t) <=? L) with false by (symmetry; apply Nat.leb_gt; lia). cbn [andb].
      rewrite D2. destruct (Nat.ltb_spec L (dbase t)) as [Lb|Lb]; [reflexivity|].
      rewrite Sabove by lia. rewrite (scr_dline t) by exact A. f_equal. lia.
    + intros L c HL1 HL2 Hc. unfold dlen in HL2. rewrite B4, H4h, H3h, H2h in HL2.
      rewrite D4, D3. unfold show_cell.
      destruct (Nat.leb_spec (dbase t + (t_h t)) L) as [Lh|Lh].
      * replace (L <? dbase t + (t_h t) + length rest) with true by (symmetry; apply Nat.ltb_lt; lia). cbn [andb].
        unfold rest. rewrite nth_skipn. do 3 f_equal. unfold shared. lia.
      * cbn [andb]. rewrite D2. replace (L <? dbase t) with false by (symmetry; apply Nat.ltb_ge; lia).
        destruct (Nat.lt_ge_cases (L - dbase t) ((cw_top ws) + shared)) as [Ls|Ls].
        -- rewrite (Scontent (L - dbase t)) by (try lia; congruence). do 3 f_equal. lia.
        -- rewrite (Sblank (L - dbase t)) by (try lia; congruence).
           rewrite (nth_overflow a) by (unfold shared in Ls; lia). cbn [cells flat_map]. now destruct c.
    + repeat split; congruence.
  - exact Htop'.
  - exact Hoff.
  - rewrite R4. unfold cursor_row_after. rewrite <- Htop', <- Hoff. unfold crow.
    replace (top' + fst cur) with (fst cur + top') by lia.
    apply Nat.min_l. rewrite H3h, H2h. lia.
  - rewrite C4. apply Nat.min_l. rewrite H3w, H2w. lia.
  - rewrite V4, V3, V2, V1, V0. now destruct (cw_hide ws).
  - repeat split.
Qed.

(* ---- leaving the context ------------------------------------------------------------------ *)
Theorem cw_exit_correct ws t :
  t_in_alt t = false -> t_sgr t = sgr_default ->
  exists t', execs t (cw_exit ws) = Some t' /\ exit_spec (cw_keep ws) t t' /\
    t_h t' = t_h t /\ t_w t' = t_w t /\ t_in_alt t' = false.
Proof.
  intros A G. unfold cw_exit. destruct (cw_keep ws).
  - destruct (exec_lf_main t A) as (t1 & E1 & H1h & H1w & A1 & G1 & V1 & C1 & X1).
    destruct (exec_clear_down t1 A1) as (t2 & E2 & H2h & H2w & A2 & V2 & B2 & D2); [congruence|].
    exists t2. cbn [app execs]. rewrite E1. cbn [execs] in E2. rewrite E2.
    split; [reflexivity|]. split; [|repeat split; congruence].
    destruct (S (t_row t) =? t_h t) eqn:EB.
    + destruct X1 as (R1 & B1 & D1). apply Nat.eqb_eq in EB. constructor.
      * intros L c HL. rewrite D2, R1, B1, D1.
        replace (S (dbase t) + t_row t <=? L) with false by (symmetry; apply Nat.leb_gt; lia).
        now replace (L =? dbase t + t_h t) with false by (symmetry; apply Nat.eqb_neq; lia).
      * intros L c HL. rewrite D2, R1, B1.
        now replace (S (dbase t) + t_row t <=? L) with true by (symmetry; apply Nat.leb_le; lia).
      * rewrite B2, B1. cbn [andb]. replace (S (t_row t) =? t_h t) with true by (symmetry; apply Nat.eqb_eq; lia). lia.
      * exact V2.
    + destruct X1 as (R1 & B1 & D1). constructor.
      * intros L c HL. rewrite D2, R1, B1, D1.
        now replace (dbase t + S (t_row t) <=? L) with false by (symmetry; apply Nat.leb_gt; lia).
      * intros L c HL. rewrite D2, R1, B1.
        now replace (dbase t + S (t_row t) <=? L) with true by (symmetry; apply Nat.leb_le; lia).
      * rewrite B2, B1. cbn [andb]. rewrite EB. lia.
      * exact V2.
  - destruct (exec_clear_down t A G) as (t2 & E2 & H2h & H2w & A2 & V2 & B2 & D2).
    exists t2. cbn [app]. split; [exact E2|]. split; [|repeat split; congruence].
    constructor.
    + intros L c HL. rewrite D2.
      now replace (dbase t + t_row t <=? L) with false by (symmetry; apply Nat.leb_gt; lia).
    + intros L c HL. rewrite D2.
      now replace (dbase t + t_row t <=? L) with true by (symmetry; apply Nat.leb_le; lia).
    + rewrite B2. cbn [andb]. lia.
    + exact V2.
Qed.

(* ---- histories of renders, then leaving the context ---------------------------------------- *)
(* what the property quantifies over: rows of single-column printable characters no
   wider than the terminal, cursor on an array cell (row 0 when the array is empty) *)
Definition valid_render (w : nat) (rc : list fmtstr * (nat * nat)) : Prop :=
  Forall (fun l => clean l = true) (fst rc) /\ Forall (fun l => flen l <= w) (fst rc) /\
  fst (snd rc) < Nat.max 1 (length (fst rc)) /\ snd (snd rc) < w.

(* after EVERY render of the history the post-condition of the property holds (relative
   to the terminal as the previous render left it), and so does the exit's at the end *)
Fixpoint all_renders_ok (far : nat) (ws : cwwin) (t : term) (ops : list (list fmtstr * (nat * nat))) : Prop :=
  match ops with
  | [] => exists te, execs t (cw_exit ws) = Some te /\ exit_spec (cw_keep ws) t te
  | (a, cur) :: rest =>
      let res := cw_render far ws (t_h t) (t_w t) a cur in
      exists t', execs t (fst (fst res)) = Some t'
        /\ render_spec t t' (cw_top ws) a
        /\ cw_top (snd (fst res)) = top_after (t_h t) (cw_top ws) (length a)
        /\ snd res = pushed_off (t_h t) (cw_top ws) (length a)
        /\ t_row t' = cursor_row_after (t_h t) (cw_top ws) (length a) (fst cur) /\ t_col t' = snd cur
        /\ t_visible t' = (if cw_hide ws then t_visible t else true)
        /\ all_renders_ok far (snd (fst res)) t' rest
  end.

Theorem cw_histories far : forall ops ws t,
  CwInv ws t -> t_h t - 1 <= far -> Forall (valid_render (t_w t)) ops -> all_renders_ok far ws t ops.
Proof.
  induction ops as [|[a cur] rest IH]; intros ws t HI Hfar HV; cbn [all_renders_ok].
  - destruct HI as (A & G & _). destruct (cw_exit_correct ws t A G) as (te & E & X & _). now exists te.
  - inversion HV as [|? ? (Hcl & Hwd & Hcr & Hcc) HVr]; subst. cbn [fst snd] in *.
    assert (Hcr' : fst cur < Nat.max (length a) (t_h t - cw_top ws)) by (destruct HI as (_ & _ & _ & Ht & _); lia).
    destruct (cw_render_correct far ws t a cur HI Hfar Hcl Hwd Hcr' Hcc) as
      (t1 & E & HI1 & RS & T & O & R & C & V & _). cbv zeta in *.
    exists t1. split; [exact E|]. split; [exact RS|]. split; [exact T|]. split; [exact O|].
    split; [exact R|]. split; [exact C|]. split; [exact V|].
    destruct (rs_frame _ _ _ _ RS) as (Fh & Fw & _).
    apply IH; [exact HI1 | now rewrite Fh | now rewrite Fw].
Qed.

(* the scroll count adds up over a history; nothing above the window's FIRST first row
   (the cursor row when the context was entered) is ever altered: transitivity of rs_above *)
Lemma render_spec_above_trans t t1 t2 top a1 a2 :
  render_spec t t1 top a1 -> render_spec t1 t2 (top_after (t_h t) top (length a1)) a2 ->
  forall L c, L < dbase t + top -> dline t2 L c = dline t L c.
Proof.
  intros R1 R2 L c HL. rewrite (rs_above _ _ _ _ R2).
  - now apply (rs_above _ _ _ _ R1).
  - rewrite (rs_scrolls _ _ _ _ R1). unfold top_after. lia.
Qed.

(* from __enter__ on any main screen: any scrollback, any content, cursor anywhere *)
Corollary cw_histories_from_enter far hide keep t ops :
  t_in_alt t = false -> t_sgr t = sgr_default -> 1 <= t_w t -> t_row t < t_h t -> t_h t - 1 <= far ->
  let ws := snd (cw_enter hide keep (t_row t)) in
  exists t0, execs t (fst (cw_enter hide keep (t_row t))) = Some t0 /\
    t_main t0 = t_main t /\ t_row t0 = t_row t /\ t_col t0 = t_col t /\
    t_visible t0 = (if hide then false else t_visible t) /\
    cw_top ws = t_row t /\
    (Forall (valid_render (t_w t)) ops -> all_renders_ok far ws t0 ops).
Proof.
  intros A G Hw Hr Hfar. unfold cw_enter. cbn [fst snd cw_top].
  destruct hide; cbn [app execs exec]; eexists; (split; [reflexivity|]);
    cbn [with_visible t_main t_row t_col t_visible]; repeat split;
    intros HV; apply cw_histories; try assumption;
    unfold CwInv, cw_cache_sound; cbn [with_visible t_in_alt t_sgr t_w t_h cw_top cw_last cw_cache];
    repeat split; try assumption; intros E; discriminate.
Qed.

(* ---- the executable form of the property used by the correspondence (Corr/C07.v) ------------
   is what render_spec says: doc t' = doc_after t top a *)
Lemma doc_length t : length (doc t) = dlen t.
Proof. unfold doc. now rewrite map_length, seq_length. Qed.

Lemma nth_doc t L : L < dlen t -> nth L (doc t) [] = map (fun c => dline t L c) (seq 0 (t_w t)).
Proof.
  intros H. unfold doc.
  set (f := fun L => map (fun c => dline t L c) (seq 0 (t_w t))).
  rewrite (nth_indep _ [] (f 0)) by (now rewrite map_length, seq_length).
  rewrite map_nth. rewrite seq_nth by exact H. reflexivity.
Qed.

Lemma map_seq_ext {X} (f g : nat -> X) : forall n s, (forall i, s <= i -> i < s + n -> f i = g i) -> map f (seq s n) = map g (seq s n).
Proof.
  induction n as [|n IH]; intros s H; [reflexivity|]. cbn [seq map]. f_equal; [apply H; lia|].
  apply IH. intros i H1 H2. apply H; lia.
Qed.

Lemma repeat_map_seq {X} (x : X) : forall n s, repeat x n = map (fun _ => x) (seq s n).
Proof. induction n as [|n IH]; intros s; [reflexivity|]. cbn [repeat seq map]. f_equal. apply IH. Qed.

Theorem render_spec_doc t t' top a :
  render_spec t t' top a -> top <= t_h t -> doc t' = doc_after t top a.
Proof.
  intros RS Htop. destruct (rs_frame _ _ _ _ RS) as (Fh & Fw & _).
  pose proof (rs_scrolls _ _ _ _ RS) as Hb. unfold surplus in Hb.
  assert (Hlen : length (doc_after t top a) = dlen t').
  { unfold doc_after. rewrite !app_length, firstn_length, doc_length, map_length, repeat_length.
    unfold dlen. rewrite Hb, Fh. lia. }
  apply (nth_ext _ _ [] []); [now rewrite doc_length, Hlen|].
  intros L HL. rewrite doc_length in HL. rewrite (nth_doc t' L HL). rewrite Fw.
  unfold doc_after.
  destruct (Nat.lt_ge_cases L (dbase t + top)) as [La|La].
  - rewrite app_nth1 by (rewrite firstn_length, doc_length; unfold dlen; lia).
    rewrite nth_firstn_lt by exact La. rewrite nth_doc by (unfold dlen; lia).
    apply map_seq_ext. intros c _ _. now apply (rs_above _ _ _ _ RS).
  - rewrite app_nth2 by (rewrite firstn_length, doc_length; unfold dlen; lia).
    rewrite firstn_length, doc_length. replace (Nat.min (dbase t + top) (dlen t)) with (dbase t + top) by (unfold dlen; lia).
    assert (Hshow : map (fun c => dline t' L c) (seq 0 (t_w t)) =
                    map (fun c => show_cell a (L - (dbase t + top)) c) (seq 0 (t_w t))).
    { apply map_seq_ext. intros c _ Hc. apply (rs_shows _ _ _ _ RS); [exact La | exact HL | lia]. }
    rewrite Hshow. unfold show_cell.
    destruct (Nat.lt_ge_cases (L - (dbase t + top)) (length a)) as [Lb|Lb].
    + rewrite app_nth1 by (now rewrite map_length).
      rewrite (nth_indep _ [] (row_cells (t_w t) [])) by (now rewrite map_length).
      rewrite map_nth. reflexivity.
    + rewrite app_nth2 by (now rewrite map_length). rewrite map_length.
      rewrite (nth_overflow a) by exact Lb. cbn [cells flat_map].
      assert (Hin : L - (dbase t + top) - length a < t_h t - top - length a) by (unfold dlen in HL; lia).
      rewrite (nth_indep _ [] (repeat blank (t_w t))) by (now rewrite repeat_length).
      rewrite nth_repeat. rewrite (repeat_map_seq blank (t_w t) 0).
      apply map_seq_ext. intros c _ _. now destruct c.
Qed.

(* ---- the cursor: on the cell cursor_pos designates, or clamped when that row is gone -------- *)
Lemma cursor_row_on_screen h top n cr :
  pushed_off h top n <= cr ->
  cursor_row_after h top n cr + pushed_off h top n = top_after h top n + cr.
Proof. unfold cursor_row_after. lia. Qed.

Lemma cursor_row_clamped h top n cr :
  cr < pushed_off h top n -> cursor_row_after h top n cr = 0.
Proof. unfold cursor_row_after, pushed_off, top_after, surplus. lia. Qed.

(* the array row under the cursor is the document line the cursor is on *)
Lemma cursor_on_its_line t t' top a cr :
  render_spec t t' top a -> pushed_off (t_h t) top (length a) <= cr ->
  dbase t' + cursor_row_after (t_h t) top (length a) cr = dbase t + top + cr.
Proof.
  intros RS H. rewrite (rs_scrolls _ _ _ _ RS).
  unfold cursor_row_after, pushed_off, top_after, surplus in *. lia.
Qed.

(* non-vacuity: a concrete terminal (one line of scrollback, content on every line,
   cursor on the bottom row in the last column with a wrap pending) and a concrete
   history (a 4-row array from row 1 of a 2-row screen: three scrolls, two array rows
   pushed off; then shorter arrays, then an empty one) meet the hypotheses *)
Example cw_histories_nonvacuous :
  let t := mkTerm 2 3 (mkBuf (fun r c => (N.of_nat (65 + r), Sg 2 0 1 0 0 0 0 0)) 1) (mkBuf (fun _ _ => blank) 0) false
                  1 2 true sgr_default (0, 0, sgr_default) (0, 0, sgr_default) true in
  let a1 := [[C [97; 98; 99]%N (A 2 0 1 0 0 0 0 0)]; []; [C [101]%N (A 0 0 0 0 0 0 0 0)]; [C [102; 103]%N (A 0 3 0 0 0 0 0 0)]] in
  let a2 := [[C [101]%N (A 0 0 0 0 0 0 0 0)]] in
  (t_in_alt t = false /\ t_sgr t = sgr_default /\ 1 <= t_w t /\ t_row t < t_h t /\ t_h t - 1 <= 4999) /\
  Forall (valid_render (t_w t)) [(a1, (3, 1)); (a2, (0, 0)); ([], (0, 2))] /\
  surplus 2 1 4 = 3 /\ pushed_off 2 1 4 = 2 /\ top_after 2 1 4 = 0.
Proof.
  cbv zeta. split; [|split].
  - cbn [t_in_alt t_sgr t_w t_h t_row]. repeat split; lia.
  - repeat constructor; cbn; lia.
  - repeat split.
Qed.

(* ---- whole histories: what was above the window when the context was entered is never
        altered, by no render and not by leaving the context --------------------------------- *)
Fixpoint run_history (far : nat) (ws : cwwin) (t : term) (ops : list (list fmtstr * (nat * nat))) : option (cwwin * term) :=
  match ops with
  | [] => Some (ws, t)
  | (a, cur) :: rest =>
      let res := cw_render far ws (t_h t) (t_w t) a cur in
      match execs t (fst (fst res)) with
      | Some t' => run_history far (snd (fst res)) t' rest
      | None => None
      end
  end.

Lemma cursor_row_ge_top h top n cr : top_after h top n <= cursor_row_after h top n cr.
Proof. unfold cursor_row_after, pushed_off, top_after, surplus. lia. Qed.

Theorem cw_history_intact far : forall ops ws t,
  CwInv ws t -> cw_top ws <= t_row t -> t_h t - 1 <= far -> Forall (valid_render (t_w t)) ops ->
  exists ws' t' te,
    run_history far ws t ops = Some (ws', t') /\ execs t' (cw_exit ws') = Some te /\
    dbase t <= dbase t' /\ dbase t' <= dbase te /\
    (forall L c, L < dbase t + cw_top ws -> dline t' L c = dline t L c /\ dline te L c = dline t L c).
Proof.
  induction ops as [|[a cur] rest IH]; intros ws t HI Hrow Hfar HV; cbn [run_history].
  - destruct HI as (A & G & _). destruct (cw_exit_correct ws t A G) as (te & E & X & _).
    exists ws, t, te. split; [reflexivity|]. split; [exact E|]. split; [lia|]. split.
    + rewrite (xs_scroll _ _ _ X). lia.
    + intros L c HL. split; [reflexivity|]. apply (xs_kept _ _ _ X). lia.
  - inversion HV as [|? ? (Hcl & Hwd & Hcr & Hcc) HVr]; subst. cbn [fst snd] in *.
    assert (Hcr' : fst cur < Nat.max (length a) (t_h t - cw_top ws)) by (destruct HI as (_ & _ & _ & Ht & _); lia).
    destruct (cw_render_correct far ws t a cur HI Hfar Hcl Hwd Hcr' Hcc) as
      (t1 & E & HI1 & RS & T & O & R & C & V & _). cbv zeta in *.
    rewrite E. destruct (rs_frame _ _ _ _ RS) as (Fh & Fw & _).
    destruct (IH (snd (fst (cw_render far ws (t_h t) (t_w t) a cur))) t1 HI1) as (ws' & t' & te & RH & EX & B1 & B2 & K).
    { rewrite T, R. apply cursor_row_ge_top. } { now rewrite Fh. } { now rewrite Fw. }
    exists ws', t', te. split; [exact RH|]. split; [exact EX|].
    pose proof (rs_scrolls _ _ _ _ RS) as Hs.
    split; [lia|]. split; [exact B2|].
    intros L c HL.
    assert (HL1 : L < dbase t1 + cw_top (snd (fst (cw_render far ws (t_h t) (t_w t) a cur)))).
    { rewrite T, Hs. unfold top_after. lia. }
    destruct (K L c HL1) as [K1 K2]. rewrite K1, K2. split; now apply (rs_above _ _ _ _ RS).
Qed.

(* the same terminal and the first two renders, computed: 'A' is in the scrollback, 'B' on
   the row above the cursor; the 4-row array scrolls three times ('B' and two array rows
   leave the screen), the second render finds its row in the re-keyed cache *)
Example cw_history_example :
  let P := Sg 2 0 1 0 0 0 0 0 in
  let t := mkTerm 2 3 (mkBuf (fun r c => (N.of_nat (65 + r), P)) 1) (mkBuf (fun _ _ => blank) 0) false
                  1 2 true sgr_default (0, 0, sgr_default) (0, 0, sgr_default) true in
  let a1 := [[C [97; 98; 99]%N (A 2 0 1 0 0 0 0 0)]; []; [C [101]%N (A 0 0 0 0 0 0 0 0)]; [C [102; 103]%N (A 0 3 0 0 0 0 0 0)]] in
  let a2 := [[C [101]%N (A 0 0 0 0 0 0 0 0)]] in
  option_map (fun p => (doc (snd p), dbase (snd p), (t_row (snd p), t_col (snd p)), cw_top (fst p)))
    (run_history 4999 (snd (cw_enter true false 1)) t [(a1, (3, 1)); (a2, (0, 0))])
  = Some ([[(65%N, P); (65%N, P); (65%N, P)]; [(66%N, P); (66%N, P); (66%N, P)];
           [(97%N, P); (98%N, P); (99%N, P)]; [blank; blank; blank];
           [(101%N, sgr_default); blank; blank]; [blank; blank; blank]], 4, (0, 0), 0).
Proof. vm_compute. reflexivity. Qed.
