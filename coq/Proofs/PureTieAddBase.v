(* shared by Proofs/PureTieAdd.v and Proofs/PureTieRadd.v (each theorem in a file of its own, so that an
   edit of one method un-discharges its own tie only) *)
From Coq Require Import String Lia ZifyBool ZifyNat ZifyN.
From Curtsies Require Import Model.Base Model.Splice Spec.ListOps Spec.PyMini Gen.Pure Gen.PureFmt Spec.PyEnvFmt
  Model.Slice Proofs.PyStep Proofs.PureTieBase Proofs.PureTieFmtBase.
Local Open Scope Z_scope.

(* (x for x in l), consumed: the elements of l *)
Lemma sequence_map_gen : forall (F : res val -> res val) l,
  (forall v, F (Ok v) = Ok v) -> sequence (map F (map Ok l)) = Ok l.
Proof.
  intros F l HF. induction l as [|v l IH]; [reflexivity|].
  cbn [map sequence]. rewrite HF, IH. reflexivity.
Qed.

Ltac gen_step :=
  match goal with
  | |- context [sequence (map ?F (map Ok ?l))] =>
      rewrite (sequence_map_gen F l) by (let v := fresh "v" in intro v; cbv beta iota; lk; reflexivity)
  end.

Ltac same_runs :=
  cbv [Slice.add Slice.radd plain_chunk embed_fmtstr mk_fmtstr embed_chunk mk_chunk];
  rewrite ?map_app; cbn [map c_s c_a app]; reflexivity.

