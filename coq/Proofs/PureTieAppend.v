(* curtsies.formatstring.FmtStr.append: repository text = model (Model/Splice.v [append]), for all FmtStrs
   and all operands (a str without an escape introducer, or a FmtStr).  self.splice is the generated tree,
   replaced here by its own tie theorem. *)
From Coq Require Import String Lia ZifyBool ZifyNat ZifyN.
From Curtsies Require Import Model.Base Model.Splice Spec.ListOps Spec.PyMini Gen.Pure Gen.PureFmt Spec.PyEnvFmt
  Model.Slice Proofs.PyStep Proofs.PureTieBase Proofs.PureTieFmtBase Proofs.PureTieSplice Proofs.PureTieCallBase.
Local Open Scope Z_scope.

Theorem append_tie : forall f x,
  operand_plain x = true ->
  call_in ctxF4 py_FmtStr_append [embed_fmtstr f; embed_operand x] = Ok (embed_fmtstr (append f x)).
Proof.
  not_a_stub py_FmtStr_append.
  intros f x Hplain. unfold call_in. pcbv.
  frun ltac:(idtac; splice_call_step).
  first [ reflexivity
        | fail 1 "TIE BROKEN: the repository's curtsies.formatstring.FmtStr.append no longer computes what the model computes" ].
Qed.

