(* C10: width, width_at_offset and width_aware_slice measure and cut by columns. *)
From Curtsies Require Import Model.Base Model.Width Spec.Columns.
From Coq Require Import Lia ZifyBool ZifyNat ZifyN.
Close Scope N_scope.
Local Open Scope Z_scope.

Section WidthProofs.
Variable wc : char -> Z.

(* the range assumed of cwcwidth on the characters considered *)
Definition w012 (c : char) : Prop := wc c = 0 \/ wc c = 1 \/ wc c = 2.
Definition str_ok (s : str) : Prop := forall c, In c s -> w012 c.
Definition fs_ok (f : fmtstr) : Prop := str_ok (text f).

Lemma str_ok_cons c s : str_ok (c :: s) -> w012 c /\ str_ok s.
Proof. intro H. split; [apply H; now left|intros x Hx; apply H; now right]. Qed.

Lemma str_ok_app a b : str_ok (a ++ b) -> str_ok a /\ str_ok b.
Proof. intro H. split; intros x Hx; apply H, in_or_app; auto. Qed.

Lemma fs_ok_cons ch f : fs_ok (ch :: f) -> str_ok (c_s ch) /\ fs_ok f.
Proof. unfold fs_ok. cbn [text flat_map]. apply str_ok_app. Qed.

(* sum of the widths of the characters of a cell list *)
Fixpoint wsum (cs : list cell) : Z :=
  match cs with [] => 0 | x :: r => wc (fst x) + wsum r end.

Definition withst (st : sgr) (s : str) : list cell := map (fun x => (x, st)) s.

Lemma chunk_cells_withst ch : chunk_cells ch = withst (eff (c_a ch)) (c_s ch).
Proof. reflexivity. Qed.

Lemma colcells_of_app a b : colcells_of wc (a ++ b) = colcells_of wc a ++ colcells_of wc b.
Proof. unfold colcells_of. apply flat_map_app. Qed.

Lemma wsum_app a b : wsum (a ++ b) = wsum a + wsum b.
Proof. induction a as [|x a IH]; cbn [wsum app]; lia. Qed.

Lemma expand_length x : w012 (fst x) -> Z.of_nat (length (expand wc x)) = wc (fst x).
Proof.
  intros [H|[H|H]]; unfold expand; rewrite H; reflexivity.
Qed.

Lemma wsum_colcells cs : str_ok (map fst cs) -> wsum cs = Z.of_nat (length (colcells_of wc cs)).
Proof.
  induction cs as [|x cs IH]; intro Hok; [reflexivity|].
  cbn [map] in Hok. apply str_ok_cons in Hok as [Hx Hok].
  change (colcells_of wc (x :: cs)) with (expand wc x ++ colcells_of wc cs).
  rewrite app_length, Nat2Z.inj_add, expand_length, <- IH by assumption. reflexivity.
Qed.

Lemma wsum_nonneg cs : str_ok (map fst cs) -> 0 <= wsum cs.
Proof. intro H. rewrite wsum_colcells by assumption. lia. Qed.

Lemma map_fst_withst st s : map fst (withst st s) = s.
Proof. unfold withst. rewrite map_map. cbn [fst]. apply map_id. Qed.

Lemma wcswidth_wsum st s : str_ok s -> wcswidth wc s = wsum (withst st s).
Proof.
  induction s as [|c s IH]; intro Hok; [reflexivity|].
  apply str_ok_cons in Hok as [Hc Hok].
  cbn [wcswidth withst map wsum fst]. fold (withst st s).
  rewrite IH by assumption.
  pose proof (wsum_nonneg (withst st s)) as Hn. rewrite map_fst_withst in Hn. specialize (Hn Hok).
  destruct (wc c <? 0) eqn:E1; [destruct Hc as [H|[H|H]]; lia|].
  destruct (wsum (withst st s) <? 0) eqn:E2; [lia|reflexivity].
Qed.

Lemma chunk_width_ok ch : str_ok (c_s ch) -> chunk_width wc ch = Ok (wsum (chunk_cells ch)).
Proof.
  intro Hok. unfold chunk_width. rewrite chunk_cells_withst, (wcswidth_wsum (eff (c_a ch))) by assumption.
  pose proof (wsum_nonneg (withst (eff (c_a ch)) (c_s ch))) as Hn. rewrite map_fst_withst in Hn.
  specialize (Hn Hok).
  destruct (wsum (withst (eff (c_a ch)) (c_s ch)) <? 0) eqn:E; [lia|].
  now rewrite andb_false_r.
Qed.

Lemma cells_cons ch f : cells (ch :: f) = chunk_cells ch ++ cells f.
Proof. reflexivity. Qed.

Lemma map_fst_cells f : map fst (cells f) = text f.
Proof.
  induction f as [|ch f IH]; [reflexivity|].
  rewrite cells_cons, map_app. cbn [text flat_map].
  f_equal; [rewrite chunk_cells_withst; apply map_fst_withst|exact IH].
Qed.

Lemma fs_width_wsum f : fs_ok f -> fs_width wc f = Ok (wsum (cells f)).
Proof.
  induction f as [|ch f IH]; intro Hok; [reflexivity|].
  apply fs_ok_cons in Hok as [Hc Hok].
  cbn [fs_width]. rewrite chunk_width_ok by assumption. cbn [bind].
  rewrite IH by assumption. cbn [bind]. now rewrite cells_cons, wsum_app.
Qed.

(* ---- C10, first part: width = number of column cells ---------------------- *)
Theorem width_is_columns f :
  fs_ok f -> fs_width wc f = Ok (Z.of_nat (length (colcells wc f))).
Proof.
  intro Hok. rewrite fs_width_wsum by assumption. unfold colcells.
  rewrite wsum_colcells; [reflexivity|]. now rewrite map_fst_cells.
Qed.

(* ---- C10, second part: width_at_offset n = column cells of the first n characters *)
Lemma in_firstn {A} (x : A) : forall n l, In x (firstn n l) -> In x l.
Proof.
  induction n as [|n IH]; intros [|y l] H; cbn [firstn] in H; try contradiction.
  destruct H as [H|H]; [now left|right; now apply IH].
Qed.

Lemma str_ok_firstn n s : str_ok s -> str_ok (firstn n s).
Proof. intros H c Hc. apply H. eapply in_firstn; eauto. Qed.

Lemma wcswidth_cells cs : str_ok (map fst cs) -> wcswidth wc (map fst cs) = wsum cs.
Proof.
  induction cs as [|x cs IH]; intro Hok; [reflexivity|].
  cbn [map] in Hok. apply str_ok_cons in Hok as [Hx Hok].
  cbn [map wcswidth wsum]. rewrite IH by assumption.
  pose proof (wsum_nonneg cs Hok) as Hn.
  destruct (wc (fst x) <? 0) eqn:E1; [destruct Hx as [H|[H|H]]; lia|].
  destruct (wsum cs <? 0) eqn:E2; [lia|reflexivity].
Qed.

Theorem width_at_offset_is_columns f n :
  fs_ok f -> 0 <= n ->
  width_at_offset wc f n = Ok (Z.of_nat (length (colcells_of wc (firstn (Z.to_nat n) (cells f))))).
Proof.
  intros Hok Hn. unfold width_at_offset.
  destruct (n <? 0) eqn:E; [lia|].
  rewrite <- map_fst_cells, firstn_map.
  assert (Hok' : str_ok (map fst (firstn (Z.to_nat n) (cells f)))).
  { rewrite <- firstn_map, map_fst_cells. now apply str_ok_firstn. }
  rewrite wcswidth_cells by assumption. rewrite wsum_colcells by assumption.
  destruct (_ =? -1) eqn:E2; [lia|reflexivity].
Qed.


(* ---- C10, third part: width_aware_slice ------------------------------------ *)
(* the elements of a list of columns (starting at absolute column p) lying in [lo, hi) *)
Definition inwin (lo hi p : Z) : bool := (lo <=? p) && (p <? hi).

Fixpoint window (p lo hi : Z) (l : list col) : list col :=
  match l with
  | [] => []
  | x :: r => (if inwin lo hi p then [x] else []) ++ window (p + 1) lo hi r
  end.

Lemma window_firstn_skipn l : forall p lo hi,
  window p lo hi l = firstn (Z.to_nat (hi - Z.max lo p)) (skipn (Z.to_nat (lo - p)) l).
Proof.
  induction l as [|x l IH]; intros p lo hi.
  - now rewrite skipn_nil, firstn_nil.
  - cbn [window]. rewrite IH. unfold inwin.
    destruct (lo <=? p) eqn:E1; cbn [andb].
    + replace (Z.to_nat (lo - p)) with 0%nat by lia.
      replace (Z.to_nat (lo - (p + 1))) with 0%nat by lia. cbn [skipn].
      destruct (p <? hi) eqn:E2.
      * replace (Z.to_nat (hi - Z.max lo p)) with (S (Z.to_nat (hi - Z.max lo (p + 1)))) by lia.
        reflexivity.
      * replace (Z.to_nat (hi - Z.max lo p)) with 0%nat by lia.
        replace (Z.to_nat (hi - Z.max lo (p + 1))) with 0%nat by lia. reflexivity.
    + replace (Z.to_nat (lo - p)) with (S (Z.to_nat (lo - (p + 1)))) by lia. cbn [skipn app].
      replace (Z.max lo (p + 1)) with (Z.max lo p) by lia. reflexivity.
Qed.

Lemma window_empty_right l p lo hi : hi <= p -> window p lo hi l = [].
Proof.
  intro H. rewrite window_firstn_skipn.
  replace (Z.to_nat (hi - Z.max lo p)) with 0%nat by lia. reflexivity.
Qed.

(* what one character occupying columns p .. p + wc - 1 shows inside [lo, hi) *)
Definition charwin (p lo hi : Z) (x : cell) : list col :=
  if wc (fst x) =? 1 then (if inwin lo hi p then [Full (fst x) (snd x)] else [])
  else if wc (fst x) =? 2 then
    match inwin lo hi p, inwin lo hi (p + 1) with
    | true, true => [LeftH (fst x) (snd x); RightH (fst x) (snd x)]
    | false, false => []
    | _, _ => [Full 32%N (snd x)]
    end
  else [].

Fixpoint cwin (p lo hi : Z) (cs : list cell) : list col :=
  match cs with
  | [] => []
  | x :: r => charwin p lo hi x ++ cwin (p + wc (fst x)) lo hi r
  end.

Lemma cwin_cut : forall cs p lo hi, str_ok (map fst cs) ->
  cwin p lo hi cs = cut (window p lo hi (colcells_of wc cs)).
Proof.
  induction cs as [|x cs IH]; intros p lo hi Hok; [reflexivity|].
  cbn [map] in Hok. apply str_ok_cons in Hok as [Hx Hok].
  change (colcells_of wc (x :: cs)) with (expand wc x ++ colcells_of wc cs).
  cbn [cwin]. unfold charwin, expand.
  destruct Hx as [H|[H|H]]; rewrite H; cbn [Z.eqb Pos.eqb app].
  - replace (p + 0) with p by lia. now apply IH.
  - cbn [window]. rewrite (IH (p + 1)) by assumption.
    destruct (inwin lo hi p); reflexivity.
  - cbn [window]. replace (p + 1 + 1) with (p + 2) by lia.
    rewrite (IH (p + 2)) by assumption.
    destruct (inwin lo hi p) eqn:E1; destruct (inwin lo hi (p + 1)) eqn:E2; cbn [app cut]; try reflexivity.
    unfold inwin in E1, E2. rewrite window_empty_right by lia. reflexivity.
Qed.

Lemma cwin_app : forall a b p lo hi,
  cwin p lo hi (a ++ b) = cwin p lo hi a ++ cwin (p + wsum a) lo hi b.
Proof.
  induction a as [|x a IH]; intros b p lo hi; cbn [cwin app wsum].
  - now replace (p + 0) with p by lia.
  - rewrite IH, <- app_assoc. now replace (p + wc (fst x) + wsum a) with (p + (wc (fst x) + wsum a)) by lia.
Qed.

Lemma charwin_right p lo hi x : hi <= p -> charwin p lo hi x = [].
Proof.
  intro H. unfold charwin, inwin.
  replace (p <? hi) with false by lia. replace (p + 1 <? hi) with false by lia.
  rewrite !andb_false_r. now destruct (wc (fst x) =? 1), (wc (fst x) =? 2).
Qed.

Lemma cwin_right : forall cs p lo hi, str_ok (map fst cs) -> hi <= p -> cwin p lo hi cs = [].
Proof.
  induction cs as [|x cs IH]; intros p lo hi Hok H; [reflexivity|].
  cbn [map] in Hok. apply str_ok_cons in Hok as [Hx Hok].
  cbn [cwin]. rewrite charwin_right by assumption. rewrite IH; [reflexivity|assumption|].
  destruct Hx as [Hw|[Hw|Hw]]; lia.
Qed.

Lemma cwin_left : forall cs p lo hi, str_ok (map fst cs) -> p + wsum cs <= lo -> cwin p lo hi cs = [].
Proof.
  induction cs as [|x cs IH]; intros p lo hi Hok H; [reflexivity|].
  cbn [map] in Hok. apply str_ok_cons in Hok as [Hx Hok].
  pose proof (wsum_nonneg cs Hok) as Hn.
  cbn [cwin wsum] in *. rewrite IH by (assumption || lia). rewrite app_nil_r.
  unfold charwin, inwin.
  destruct Hx as [Hw|[Hw|Hw]]; rewrite Hw; cbn [Z.eqb Pos.eqb]; [reflexivity| |].
  - replace (lo <=? p) with false by lia. reflexivity.
  - replace (lo <=? p) with false by lia. replace (lo <=? p + 1) with false by lia. reflexivity.
Qed.

Lemma cwin_inside : forall cs p lo hi, str_ok (map fst cs) -> lo <= p -> p + wsum cs <= hi ->
  cwin p lo hi cs = colcells_of wc cs.
Proof.
  induction cs as [|x cs IH]; intros p lo hi Hok Hlo Hhi; [reflexivity|].
  cbn [map] in Hok. apply str_ok_cons in Hok as [Hx Hok].
  pose proof (wsum_nonneg cs Hok) as Hn.
  change (colcells_of wc (x :: cs)) with (expand wc x ++ colcells_of wc cs).
  cbn [cwin wsum] in *. rewrite IH by (assumption || destruct Hx as [Hw|[Hw|Hw]]; lia).
  f_equal. unfold charwin, expand, inwin.
  destruct Hx as [Hw|[Hw|Hw]]; rewrite Hw; cbn [Z.eqb Pos.eqb]; [reflexivity| |].
  - replace (lo <=? p) with true by lia. replace (p <? hi) with true by lia. reflexivity.
  - replace (lo <=? p) with true by lia. replace (p <? hi) with true by lia.
    replace (lo <=? p + 1) with true by lia. replace (p + 1 <? hi) with true by lia. reflexivity.
Qed.

Section Slice.
Hypothesis Hsp : wc 32%N = 1.     (* the replacement character is one column wide *)

Lemma colcells_spaces st n : colcells_of wc (withst st (repeat 32%N n)) = repeat (Full 32%N st) n.
Proof.
  induction n as [|n IH]; [reflexivity|].
  cbn [repeat withst map]. fold (withst st (repeat 32%N n)).
  change (colcells_of wc ((32%N, st) :: withst st (repeat 32%N n)))
    with (expand wc (32%N, st) ++ colcells_of wc (withst st (repeat 32%N n))).
  rewrite IH. unfold expand. cbn [fst snd]. rewrite Hsp. reflexivity.
Qed.

(* the body of the helper's loop for one character at local column p of a run
   that starts at absolute column K, against the requested range [a, b) *)
Lemma was_char_charwin c st K p a b :
  w012 c -> 0 <= p ->
  colcells_of wc (withst st (was_char c p (p + wc c) (Z.max 0 (a - K)) (b - K)))
  = charwin (K + p) a b (c, st).
Proof.
  intros Hc Hp. unfold was_char, charwin, inwin, interval_overlap. cbn [fst snd].
  destruct Hc as [Hw|[Hw|Hw]]; rewrite Hw; cbn [Z.eqb Pos.eqb].
  - (* zero width: nothing in either column view *)
    destruct ((p =? Z.max 0 (a - K)) && (p + 0 =? Z.max 0 (a - K))); [reflexivity|].
    destruct ((p >=? Z.max 0 (a - K)) && (p + 0 <=? b - K)).
    + cbn [withst map]. unfold colcells_of. cbn [flat_map]. unfold expand. cbn [fst]. now rewrite Hw.
    + rewrite colcells_spaces.
      replace (Z.to_nat (Z.max 0 (Z.min (p + 0) (b - K) - Z.max p (Z.max 0 (a - K))))) with 0%nat by lia.
      reflexivity.
  - (* one column *)
    replace ((p =? Z.max 0 (a - K)) && (p + 1 =? Z.max 0 (a - K))) with false by lia.
    destruct ((p >=? Z.max 0 (a - K)) && (p + 1 <=? b - K)) eqn:E.
    + replace ((a <=? K + p) && (K + p <? b)) with true by lia.
      cbn [withst map]. unfold colcells_of. cbn [flat_map]. unfold expand. cbn [fst snd]. now rewrite Hw.
    + replace ((a <=? K + p) && (K + p <? b)) with false by lia.
      rewrite colcells_spaces.
      replace (Z.to_nat (Z.max 0 (Z.min (p + 1) (b - K) - Z.max p (Z.max 0 (a - K))))) with 0%nat by lia.
      reflexivity.
  - (* two columns *)
    replace ((p =? Z.max 0 (a - K)) && (p + 2 =? Z.max 0 (a - K))) with false by lia.
    destruct ((p >=? Z.max 0 (a - K)) && (p + 2 <=? b - K)) eqn:E.
    + replace ((a <=? K + p) && (K + p <? b)) with true by lia.
      replace ((a <=? K + p + 1) && (K + p + 1 <? b)) with true by lia.
      cbn [withst map]. unfold colcells_of. cbn [flat_map]. unfold expand. cbn [fst snd]. now rewrite Hw.
    + rewrite colcells_spaces.
      destruct ((a <=? K + p) && (K + p <? b)) eqn:E1;
      destruct ((a <=? K + p + 1) && (K + p + 1 <? b)) eqn:E2; try lia.
      * replace (Z.to_nat (Z.max 0 (Z.min (p + 2) (b - K) - Z.max p (Z.max 0 (a - K))))) with 1%nat by lia.
        reflexivity.
      * replace (Z.to_nat (Z.max 0 (Z.min (p + 2) (b - K) - Z.max p (Z.max 0 (a - K))))) with 1%nat by lia.
        reflexivity.
      * replace (Z.to_nat (Z.max 0 (Z.min (p + 2) (b - K) - Z.max p (Z.max 0 (a - K))))) with 0%nat by lia.
        reflexivity.
Qed.

Lemma withst_app st a b : withst st (a ++ b) = withst st a ++ withst st b.
Proof. apply map_app. Qed.

Lemma was_chars_cwin st K a b : forall s p, str_ok s -> 0 <= p ->
  colcells_of wc (withst st (was_chars wc s p (Z.max 0 (a - K)) (b - K)))
  = cwin (K + p) a b (withst st s).
Proof.
  induction s as [|c s IH]; intros p Hok Hp; [reflexivity|].
  apply str_ok_cons in Hok as [Hc Hok].
  change (withst st (c :: s)) with ((c, st) :: withst st s).
  cbn [was_chars cwin fst].
  rewrite withst_app, colcells_of_app, was_char_charwin by assumption.
  rewrite IH by (assumption || destruct Hc as [Hw|[Hw|Hw]]; lia).
  now rewrite Z.add_assoc.
Qed.

(* one iteration of the run walk *)
Definition walk_part (ch : chunk) (start stop counter w : Z) : list chunk :=
  if (start <? counter + w) && (stop >? counter) then
    let s := Z.max 0 (start - counter) in
    let e := Z.min (stop - counter) w in
    if e - s =? w then [ch]
    else [mkChunk (was_str wc (c_s ch) (Z.max 0 (start - counter)) (stop - counter)) (c_a ch)]
  else [].

Lemma was_walk_cons ch rest start stop counter :
  was_walk wc (ch :: rest) start stop counter =
  bind (chunk_width wc ch) (fun w =>
    let part := walk_part ch start stop counter w in
    if stop <? counter + w then Ok part
    else bind (was_walk wc rest start stop (counter + w)) (fun ps => Ok (part ++ ps))).
Proof. reflexivity. Qed.

Lemma colcells_app f g : colcells wc (f ++ g) = colcells wc f ++ colcells wc g.
Proof. unfold colcells, cells. now rewrite flat_map_app, colcells_of_app. Qed.

Lemma str_ok_chunk_cells ch : str_ok (c_s ch) -> str_ok (map fst (chunk_cells ch)).
Proof. rewrite chunk_cells_withst, map_fst_withst. auto. Qed.

Lemma walk_part_cwin ch a b K :
  str_ok (c_s ch) ->
  colcells wc (walk_part ch a b K (wsum (chunk_cells ch))) = cwin K a b (chunk_cells ch).
Proof.
  intro Hok. pose proof (str_ok_chunk_cells ch Hok) as Hok'.
  unfold walk_part. set (w := wsum (chunk_cells ch)).
  destruct ((a <? K + w) && (b >? K)) eqn:E.
  - cbv zeta. destruct (Z.min (b - K) w - Z.max 0 (a - K) =? w) eqn:E2.
    + (* the whole run lies inside the range: reused as it is *)
      unfold colcells. cbn [cells flat_map]. rewrite app_nil_r.
      symmetry. apply cwin_inside; [assumption|lia|fold w; lia].
    + (* cut by the helper *)
      unfold colcells. cbn [cells flat_map]. rewrite app_nil_r.
      unfold chunk_cells at 1. cbn [c_s c_a]. fold (withst (eff (c_a ch)) (was_str wc (c_s ch) (Z.max 0 (a - K)) (b - K))).
      unfold was_str. rewrite was_chars_cwin by (assumption || lia).
      now rewrite Z.add_0_r.
  - (* no overlap *)
    cbn. symmetry.
    destruct (a <? K + w) eqn:E1.
    + apply cwin_right; [assumption|lia].
    + apply cwin_left; [assumption|fold w; lia].
Qed.

Lemma fs_ok_cells f : fs_ok f -> str_ok (map fst (cells f)).
Proof. now rewrite map_fst_cells. Qed.

Lemma was_walk_cwin a b : forall f K, fs_ok f ->
  exists parts, was_walk wc f a b K = Ok parts /\ colcells wc parts = cwin K a b (cells f).
Proof.
  induction f as [|ch f IH]; intros K Hok.
  - exists []. split; reflexivity.
  - apply fs_ok_cons in Hok as [Hc Hok].
    rewrite was_walk_cons, chunk_width_ok by assumption. cbn [bind]. cbv zeta.
    rewrite cells_cons, cwin_app.
    destruct (b <? K + wsum (chunk_cells ch)) eqn:E.
    + (* break *)
      eexists. split; [reflexivity|].
      rewrite walk_part_cwin by assumption.
      rewrite (cwin_right (cells f)); [now rewrite app_nil_r|now apply fs_ok_cells|lia].
    + destruct (IH (K + wsum (chunk_cells ch)) Hok) as [ps [Hps Hcol]].
      rewrite Hps. cbn [bind]. eexists. split; [reflexivity|].
      now rewrite colcells_app, walk_part_cwin, Hcol.
Qed.

(* main statement: the column cells of the slice are the requested columns of f,
   an orphaned half of a wide character shown as a space in its state *)
Theorem slice_is_columns f a b :
  fs_ok f -> 0 <= a -> 0 <= b ->
  exists r, fs_was wc f (IxSlice (Some a) (Some b)) = Ok r /\
            colcells wc r = col_slice a b (colcells wc f).
Proof.
  intros Hok Ha Hb. unfold fs_was.
  pose proof (fs_ok_cells f Hok) as Hok'.
  rewrite <- map_fst_cells, wcswidth_cells by assumption.
  pose proof (wsum_nonneg _ Hok') as Hn.
  destruct (wsum (cells f) =? -1) eqn:E; [lia|].
  rewrite fs_width_wsum by assumption. cbn [bind ws_normalize_slice].
  replace (a <? 0) with false by lia. replace (b <? 0) with false by lia. cbn [fst snd].
  destruct (was_walk_cwin a b f 0 Hok) as [parts [Hw Hcol]].
  rewrite Hw. cbn [bind].
  assert (Hspec : cwin 0 a b (cells f) = col_slice a b (colcells wc f)).
  { rewrite cwin_cut by assumption. unfold col_slice, colcells. rewrite window_firstn_skipn.
    replace (Z.max a 0) with a by lia. now rewrite Z.sub_0_r. }
  destruct parts as [|p ps].
  - eexists. split; [reflexivity|]. rewrite <- Hspec, <- Hcol. reflexivity.
  - eexists. split; [reflexivity|]. now rewrite Hcol.
Qed.


(* hence: the result is as wide as the number of requested columns that exist *)
Lemma cut_length : forall l, length (cut l) = length l.
Proof.
  induction l as [|x l IH]; [reflexivity|].
  destruct x as [c s|c s|c s]; cbn [cut length]; try (now rewrite IH).
  destruct l as [|y l']; [reflexivity|].
  destruct y as [c' s'|c' s'|c' s']; cbn [cut length] in *; now rewrite IH.
Qed.

Corollary slice_width f a b :
  fs_ok f -> 0 <= a <= b ->
  exists r, fs_was wc f (IxSlice (Some a) (Some b)) = Ok r /\
            let W := Z.of_nat (length (colcells wc f)) in
            Z.of_nat (length (colcells wc r)) = Z.min b W - Z.min a W.
Proof.
  intros Hok Hab. destruct (slice_is_columns f a b Hok) as [r [Hr Hcol]]; try lia.
  exists r. split; [assumption|]. cbv zeta. rewrite Hcol. unfold col_slice.
  rewrite cut_length, firstn_length, skipn_length. lia.
Qed.

(* zero-width characters of the result: a sub-sequence of the original's, for
   every index form (none is invented, their order is kept) *)
Lemma subseq_nil_l {A} : forall l : list A, subseq [] l.
Proof. induction l; constructor; auto. Qed.

Lemma subseq_refl {A} : forall l : list A, subseq l l.
Proof. induction l; [apply sub_nil|now apply sub_take]. Qed.

Lemma subseq_app {A} : forall (a b a' b' : list A),
  subseq a b -> subseq a' b' -> subseq (a ++ a') (b ++ b').
Proof.
  intros a b a' b' H H'. induction H; cbn [app].
  - exact H'.
  - now apply sub_skip.
  - now apply sub_take.
Qed.

Lemma zw_cells_app a b : zw_cells wc (a ++ b) = zw_cells wc a ++ zw_cells wc b.
Proof. apply filter_app. Qed.

Lemma zw_spaces st n : zw_cells wc (withst st (repeat 32%N n)) = [].
Proof.
  induction n as [|n IH]; [reflexivity|].
  cbn [repeat withst map zw_cells filter]. unfold zero_width at 1. cbn [fst]. rewrite Hsp. exact IH.
Qed.

Lemma zw_was_char c st p pe lo hi :
  subseq (zw_cells wc (withst st (was_char c p pe lo hi))) (zw_cells wc (withst st [c])).
Proof.
  unfold was_char.
  destruct ((p =? lo) && (pe =? lo)); [apply subseq_nil_l|].
  destruct ((p >=? lo) && (pe <=? hi)); [apply subseq_refl|].
  rewrite zw_spaces. apply subseq_nil_l.
Qed.

Lemma zw_was_chars st lo hi : forall s p,
  subseq (zw_cells wc (withst st (was_chars wc s p lo hi))) (zw_cells wc (withst st s)).
Proof.
  induction s as [|c s IH]; intro p; [constructor|].
  change (withst st (c :: s)) with (withst st [c] ++ withst st s).
  cbn [was_chars]. rewrite withst_app, !zw_cells_app.
  apply subseq_app; [apply zw_was_char|apply IH].
Qed.

Lemma cells_app f g : cells (f ++ g) = cells f ++ cells g.
Proof. apply flat_map_app. Qed.

Lemma zw_walk_part ch a b K w :
  subseq (zw_cells wc (cells (walk_part ch a b K w))) (zw_cells wc (chunk_cells ch)).
Proof.
  unfold walk_part.
  destruct ((a <? K + w) && (b >? K)); [|apply subseq_nil_l].
  cbv zeta. destruct (_ =? w).
  - cbn [cells flat_map]. rewrite app_nil_r. apply subseq_refl.
  - cbn [cells flat_map]. rewrite app_nil_r. apply zw_was_chars.
Qed.

Lemma zw_was_walk a b : forall f K parts,
  was_walk wc f a b K = Ok parts ->
  subseq (zw_cells wc (cells parts)) (zw_cells wc (cells f)).
Proof.
  induction f as [|ch f IH]; intros K parts H.
  - injection H as <-. constructor.
  - rewrite was_walk_cons in H. destruct (chunk_width wc ch) as [w|e]; [|discriminate].
    cbn [bind] in H. cbv zeta in H. rewrite cells_cons, zw_cells_app.
    destruct (b <? K + w).
    + injection H as <-. rewrite <- (app_nil_r (zw_cells wc (cells _))).
      apply subseq_app; [apply zw_walk_part|apply subseq_nil_l].
    + destruct (was_walk wc f a b (K + w)) as [ps|e] eqn:E; [|discriminate].
      cbn [bind] in H. injection H as <-. rewrite cells_app, zw_cells_app.
      apply subseq_app; [apply zw_walk_part|eapply IH; eassumption].
Qed.

Theorem slice_zero_width_subseq f ix r :
  fs_was wc f ix = Ok r ->
  subseq (zw_cells wc (cells r)) (zw_cells wc (cells f)).
Proof.
  unfold fs_was. intro H.
  destruct (wcswidth wc (text f) =? -1); [discriminate|].
  destruct (fs_width wc f) as [wd|e]; [|discriminate]. cbn [bind] in H.
  destruct (ws_normalize_slice wd ix) as [se|e]; [|discriminate]. cbn [bind] in H.
  destruct (was_walk wc f (fst se) (snd se) 0) as [parts|e] eqn:E; [|discriminate]. cbn [bind] in H.
  injection H as <-. apply zw_was_walk in E.
  destruct parts; [apply subseq_nil_l|exact E].
Qed.

End Slice.

End WidthProofs.
