(* C10: width, width_at_offset and width_aware_slice measure and cut by columns. *)
From Curtsies Require Import Model.Base Model.Width Spec.Columns.
From Coq Require Import Lia ZifyBool ZifyNat ZifyN.
Close Scope N_scope.
Local Open Scope Z_scope.

Section WidthProofs.
Variable wc : char -> Z.

(* the range assumed of cwcwidth on the characters considered *)
Definition w012 (c : char) : Prop := wc c = 0 \/ wc c = 1 \/ wc c = 2.
Definition str_ok (s : str) : Prop := forall c, In c s -> w012 c.
Definition fs_ok (f : fmtstr) : Prop := str_ok (text f).

Lemma str_ok_cons c s : str_ok (c :: s) -> w012 c /\ str_ok s.
Proof. intro H. split; [apply H; now left|intros x Hx; apply H; now right]. Qed.

Lemma str_ok_app a b : str_ok (a ++ b) -> str_ok a /\ str_ok b.
Proof. intro H. split; intros x Hx; apply H, in_or_app; auto. Qed.

Lemma fs_ok_cons ch f : fs_ok (ch :: f) -> str_ok (c_s ch) /\ fs_ok f.
Proof. unfold fs_ok. cbn [text flat_map]. apply str_ok_app. Qed.

(* sum of the widths of the characters of a cell list *)
Fixpoint wsum (cs : list cell) : Z :=
  match cs with [] => 0 | x :: r => wc (fst x) + wsum r end.

Definition withst (st : sgr) (s : str) : list cell := map (fun x => (x, st)) s.

Lemma chunk_cells_withst ch : chunk_cells ch = withst (eff (c_a ch)) (c_s ch).
Proof. reflexivity. Qed.

Lemma colcells_of_app a b : colcells_of wc (a ++ b) = colcells_of wc a ++ colcells_of wc b.
Proof. unfold colcells_of. apply flat_map_app. Qed.

Lemma wsum_app a b : wsum (a ++ b) = wsum a + wsum b.
Proof. induction a as [|x a IH]; cbn [wsum app]; lia. Qed.

Lemma expand_length x : w012 (fst x) -> Z.of_nat (length (expand wc x)) = wc (fst x).
Proof.
  intros [H|[H|H]]; unfold expand; rewrite H; reflexivity.
Qed.

Lemma wsum_colcells cs : str_ok (map fst cs) -> wsum cs = Z.of_nat (length (colcells_of wc cs)).
Proof.
  induction cs as [|x cs IH]; intro Hok; [reflexivity|].
  cbn [map] in Hok. apply str_ok_cons in Hok as [Hx Hok].
  change (colcells_of wc (x :: cs)) with (expand wc x ++ colcells_of wc cs).
  rewrite app_length, Nat2Z.inj_add, expand_length, <- IH by assumption. reflexivity.
Qed.

Lemma wsum_nonneg cs : str_ok (map fst cs) -> 0 <= wsum cs.
Proof. intro H. rewrite wsum_colcells by assumption. lia. Qed.

Lemma map_fst_withst st s : map fst (withst st s) = s.
Proof. unfold withst. rewrite map_map. cbn [fst]. apply map_id. Qed.

Lemma wcswidth_wsum st s : str_ok s -> wcswidth wc s = wsum (withst st s).
Proof.
  induction s as [|c s IH]; intro Hok; [reflexivity|].
  apply str_ok_cons in Hok as [Hc Hok].
  cbn [wcswidth withst map wsum fst]. fold (withst st s).
  rewrite IH by assumption.
  pose proof (wsum_nonneg (withst st s)) as Hn. rewrite map_fst_withst in Hn. specialize (Hn Hok).
  destruct (wc c <? 0) eqn:E1; [destruct Hc as [H|[H|H]]; lia|].
  destruct (wsum (withst st s) <? 0) eqn:E2; [lia|reflexivity].
Qed.

Lemma chunk_width_ok ch : str_ok (c_s ch) -> chunk_width wc ch = Ok (wsum (chunk_cells ch)).
Proof.
  intro Hok. unfold chunk_width. rewrite chunk_cells_withst, (wcswidth_wsum (eff (c_a ch))) by assumption.
  pose proof (wsum_nonneg (withst (eff (c_a ch)) (c_s ch))) as Hn. rewrite map_fst_withst in Hn.
  specialize (Hn Hok).
  destruct (wsum (withst (eff (c_a ch)) (c_s ch)) <? 0) eqn:E; [lia|].
  now rewrite andb_false_r.
Qed.

Lemma cells_cons ch f : cells (ch :: f) = chunk_cells ch ++ cells f.
Proof. reflexivity. Qed.

Lemma map_fst_cells f : map fst (cells f) = text f.
Proof.
  induction f as [|ch f IH]; [reflexivity|].
  rewrite cells_cons, map_app. cbn [text flat_map].
  f_equal; [rewrite chunk_cells_withst; apply map_fst_withst|exact IH].
Qed.

Lemma fs_width_wsum f : fs_ok f -> fs_width wc f = Ok (wsum (cells f)).
Proof.
  induction f as [|ch f IH]; intro Hok; [reflexivity|].
  apply fs_ok_cons in Hok as [Hc Hok].
  cbn [fs_width]. rewrite chunk_width_ok by assumption. cbn [bind].
  rewrite IH by assumption. cbn [bind]. now rewrite cells_cons, wsum_app.
Qed.

(* ---- C10, first part: width = number of column cells ---------------------- *)
Theorem width_is_columns f :
  fs_ok f -> fs_width wc f = Ok (Z.of_nat (length (colcells wc f))).
Proof.
  intro Hok. rewrite fs_width_wsum by assumption. unfold colcells.
  rewrite wsum_colcells; [reflexivity|]. now rewrite map_fst_cells.
Qed.

(* ---- C10, second part: width_at_offset n = column cells of the first n characters *)
Lemma in_firstn {A} (x : A) : forall n l, In x (firstn n l) -> In x l.
Proof.
  induction n as [|n IH]; intros [|y l] H; cbn [firstn] in H; try contradiction.
  destruct H as [H|H]; [now left|right; now apply IH].
Qed.

Lemma str_ok_firstn n s : str_ok s -> str_ok (firstn n s).
Proof. intros H c Hc. apply H. eapply in_firstn; eauto. Qed.

Lemma wcswidth_cells cs : str_ok (map fst cs) -> wcswidth wc (map fst cs) = wsum cs.
Proof.
  induction cs as [|x cs IH]; intro Hok; [reflexivity|].
  cbn [map] in Hok. apply str_ok_cons in Hok as [Hx Hok].
  cbn [map wcswidth wsum]. rewrite IH by assumption.
  pose proof (wsum_nonneg cs Hok) as Hn.
  destruct (wc (fst x) <? 0) eqn:E1; [destruct Hx as [H|[H|H]]; lia|].
  destruct (wsum cs <? 0) eqn:E2; [lia|reflexivity].
Qed.

Theorem width_at_offset_is_columns f n :
  fs_ok f -> 0 <= n ->
  width_at_offset wc f n = Ok (Z.of_nat (length (colcells_of wc (firstn (Z.to_nat n) (cells f))))).
Proof.
  intros Hok Hn. unfold width_at_offset.
  destruct (n <? 0) eqn:E; [lia|].
  rewrite <- map_fst_cells, firstn_map.
  assert (Hok' : str_ok (map fst (firstn (Z.to_nat n) (cells f)))).
  { rewrite <- firstn_map, map_fst_cells. now apply str_ok_firstn. }
  rewrite wcswidth_cells by assumption. rewrite wsum_colcells by assumption.
  destruct (_ =? -1) eqn:E2; [lia|reflexivity].
Qed.


(* ---- C10, third part: width_aware_slice ------------------------------------ *)
(* the elements of a list of columns (starting at absolute column p) lying in [lo, hi) *)
Definition inwin (lo hi p : Z) : bool := (lo <=? p) && (p <? hi).

Fixpoint window (p lo hi : Z) (l : list col) : list col :=
  match l with
  | [] => []
  | x :: r => (if inwin lo hi p then [x] else []) ++ window (p + 1) lo hi r
  end.

Lemma window_firstn_skipn l : forall p lo hi,
  window p lo hi l = firstn (Z.to_nat (hi - Z.max lo p)) (skipn (Z.to_nat (lo - p)) l).
Proof.
  induction l as [|x l IH]; intros p lo hi.
  - now rewrite skipn_nil, firstn_nil.
  - cbn [window]. rewrite IH. unfold inwin.
    destruct (lo <=? p) eqn:E1; cbn [andb].
    + replace (Z.to_nat (lo - p)) with 0%nat by lia.
      replace (Z.to_nat (lo - (p + 1))) with 0%nat by lia. cbn [skipn].
      destruct (p <? hi) eqn:E2.
      * replace (Z.to_nat (hi - Z.max lo p)) with (S (Z.to_nat (hi - Z.max lo (p + 1)))) by lia.
        reflexivity.
      * replace (Z.to_nat (hi - Z.max lo p)) with 0%nat by lia.
        replace (Z.to_nat (hi - Z.max lo (p + 1))) with 0%nat by lia. reflexivity.
    + replace (Z.to_nat (lo - p)) with (S (Z.to_nat (lo - (p + 1)))) by lia. cbn [skipn app].
      replace (Z.max lo (p + 1)) with (Z.max lo p) by lia. reflexivity.
Qed.

Lemma window_empty_right l p lo hi : hi <= p -> window p lo hi l = [].
Proof.
  intro H. rewrite window_firstn_skipn.
  replace (Z.to_nat (hi - Z.max lo p)) with 0%nat by lia. reflexivity.
Qed.

(* what one character occupying columns p .. p + wc - 1 shows inside [lo, hi) *)
Definition charwin (p lo hi : Z) (x : cell) : list col :=
  if wc (fst x) =? 1 then (if inwin lo hi p then [Full (fst x) (snd x)] else [])
  else if wc (fst x) =? 2 then
    match inwin lo hi p, inwin lo hi (p + 1) with
    | true, true => [LeftH (fst x) (snd x); RightH (fst x) (snd x)]
    | false, false => []
    | _, _ => [Full 32%N (snd x)]
    end
  else [].

Fixpoint cwin (p lo hi : Z) (cs : list cell) : list col :=
  match cs with
  | [] => []
  | x :: r => charwin p lo hi x ++ cwin (p + wc (fst x)) lo hi r
  end.

Lemma cwin_cut : forall cs p lo hi, str_ok (map fst cs) ->
  cwin p lo hi cs = cut (window p lo hi (colcells_of wc cs)).
Proof.
  induction cs as [|x cs IH]; intros p lo hi Hok; [reflexivity|].
  cbn [map] in Hok. apply str_ok_cons in Hok as [Hx Hok].
  change (colcells_of wc (x :: cs)) with (expand wc x ++ colcells_of wc cs).
  cbn [cwin]. unfold charwin, expand.
  destruct Hx as [H|[H|H]]; rewrite H; cbn [Z.eqb Pos.eqb app].
  - replace (p + 0) with p by lia. now apply IH.
  - cbn [window]. rewrite (IH (p + 1)) by assumption.
    destruct (inwin lo hi p); reflexivity.
  - cbn [window]. replace (p + 1 + 1) with (p + 2) by lia.
    rewrite (IH (p + 2)) by assumption.
    destruct (inwin lo hi p) eqn:E1; destruct (inwin lo hi (p + 1)) eqn:E2; cbn [app cut]; try reflexivity.
    unfold inwin in E1, E2. rewrite window_empty_right by lia. reflexivity.
Qed.

Lemma withst_app st a b : withst st (a ++ b) = withst st a ++ withst st b.
Proof. apply map_app. Qed.

Lemma colcells_app f g : colcells wc (f ++ g) = colcells wc f ++ colcells wc g.
Proof. unfold colcells, cells. now rewrite flat_map_app, colcells_of_app. Qed.

Lemma cells_app f g : cells (f ++ g) = cells f ++ cells g.
Proof. apply flat_map_app. Qed.

Lemma str_ok_chunk_cells ch : str_ok (c_s ch) -> str_ok (map fst (chunk_cells ch)).
Proof. rewrite chunk_cells_withst, map_fst_withst. auto. Qed.

Lemma fs_ok_cells f : fs_ok f -> str_ok (map fst (cells f)).
Proof. now rewrite map_fst_cells. Qed.

(* -- the slice character by character (zero-width characters included): the
      reference [slice_ref] of Spec/Columns.v ------------------------------------ *)
Lemma positions_app : forall x y p,
  positions wc p (x ++ y) = positions wc p x ++ positions wc (p + wsum x) y.
Proof.
  induction x as [|c x IH]; intros y p; cbn [positions app wsum].
  - now replace (p + 0) with p by lia.
  - rewrite IH. now replace (p + wc (fst c) + wsum x) with (p + (wc (fst c) + wsum x)) by lia.
Qed.

Lemma slice_ref_from_app x y p a b :
  slice_ref_from wc p a b (x ++ y) = slice_ref_from wc p a b x ++ slice_ref_from wc (p + wsum x) a b y.
Proof. unfold slice_ref_from. now rewrite positions_app, flat_map_app. Qed.

Lemma slice_ref_from_cons x cs p a b :
  slice_ref_from wc p a b (x :: cs) = keep_char wc a b (p, x) ++ slice_ref_from wc (p + wc (fst x)) a b cs.
Proof. reflexivity. Qed.

(* the body of the helper's loop, for the character at local column p of a run that
   starts at absolute column K, called with the unclamped offsets a - K, b - K, is
   [keep_char] at the absolute column K + p *)
Lemma was_char_keep c st K p a b :
  w012 c ->
  withst st (was_char c p (p + wc c) (a - K) (b - K)) = keep_char wc a b (K + p, (c, st)).
Proof.
  intros Hc. unfold was_char, keep_char, in_range, interval_overlap. cbn [fst snd].
  destruct Hc as [Hw|[Hw|Hw]]; rewrite Hw; cbn [Z.eqb Pos.eqb andb].
  - (* zero width *)
    destruct ((p =? a - K) && (p + 0 =? a - K)) eqn:E1.
    + replace ((a <? K + p) && (K + p <=? b)) with false by lia. reflexivity.
    + destruct ((p >=? a - K) && (p + 0 <=? b - K)) eqn:E2.
      * replace ((a <? K + p) && (K + p <=? b)) with true by lia. reflexivity.
      * replace ((a <? K + p) && (K + p <=? b)) with false by lia.
        replace (Z.to_nat (Z.max 0 (Z.min (p + 0) (b - K) - Z.max p (a - K)))) with 0%nat by lia.
        reflexivity.
  - (* one column *)
    replace ((p =? a - K) && (p + 1 =? a - K)) with false by lia.
    destruct ((p >=? a - K) && (p + 1 <=? b - K)) eqn:E.
    + replace ((a <=? K + p) && (K + p + 1 <=? b)) with true by lia. reflexivity.
    + replace ((a <=? K + p) && (K + p + 1 <=? b)) with false by lia.
      replace (Z.to_nat (Z.max 0 (Z.min (p + 1) (b - K) - Z.max p (a - K)))) with 0%nat by lia.
      reflexivity.
  - (* two columns *)
    replace ((p =? a - K) && (p + 2 =? a - K)) with false by lia.
    destruct ((p >=? a - K) && (p + 2 <=? b - K)) eqn:E.
    + replace ((a <=? K + p) && (K + p + 2 <=? b)) with true by lia. reflexivity.
    + replace ((a <=? K + p) && (K + p + 2 <=? b)) with false by lia.
      destruct (xorb ((a <=? K + p) && (K + p <? b)) ((a <=? K + p + 1) && (K + p + 1 <? b))) eqn:E2.
      * replace (Z.to_nat (Z.max 0 (Z.min (p + 2) (b - K) - Z.max p (a - K)))) with 1%nat
          by (destruct ((a <=? K + p) && (K + p <? b)) eqn:E3;
              destruct ((a <=? K + p + 1) && (K + p + 1 <? b)) eqn:E4; cbn [xorb] in E2; lia).
        reflexivity.
      * replace (Z.to_nat (Z.max 0 (Z.min (p + 2) (b - K) - Z.max p (a - K)))) with 0%nat
          by (destruct ((a <=? K + p) && (K + p <? b)) eqn:E3;
              destruct ((a <=? K + p + 1) && (K + p + 1 <? b)) eqn:E4; cbn [xorb] in E2; lia).
        reflexivity.
Qed.

Lemma was_chars_keep st K a b : forall s p, str_ok s ->
  withst st (was_chars wc s p (a - K) (b - K)) = slice_ref_from wc (K + p) a b (withst st s).
Proof.
  induction s as [|c s IH]; intros p Hok; [reflexivity|].
  apply str_ok_cons in Hok as [Hc Hok].
  change (withst st (c :: s)) with ((c, st) :: withst st s).
  rewrite slice_ref_from_cons. cbn [was_chars fst].
  rewrite withst_app, was_char_keep by assumption.
  rewrite IH by assumption. now rewrite Z.add_assoc.
Qed.

(* [keep_char] on stretches lying wholly left / wholly right of the range *)
Lemma slice_ref_left a b : forall cs p, str_ok (map fst cs) -> p + wsum cs <= a ->
  slice_ref_from wc p a b cs = [].
Proof.
  induction cs as [|x cs IH]; intros p Hok H; [reflexivity|].
  cbn [map] in Hok. apply str_ok_cons in Hok as [Hx Hok].
  pose proof (wsum_nonneg cs Hok) as Hn. cbn [wsum] in H.
  rewrite slice_ref_from_cons, IH by (assumption || lia). rewrite app_nil_r.
  unfold keep_char, in_range. cbn [fst snd].
  destruct Hx as [Hw|[Hw|Hw]]; rewrite Hw; cbn [Z.eqb Pos.eqb andb].
  - replace ((a <? p) && (p <=? b)) with false by lia. reflexivity.
  - replace ((a <=? p) && (p + 1 <=? b)) with false by lia. reflexivity.
  - replace ((a <=? p) && (p + 2 <=? b)) with false by lia.
    replace ((a <=? p) && (p <? b)) with false by lia.
    replace ((a <=? p + 1) && (p + 1 <? b)) with false by lia. reflexivity.
Qed.

Lemma slice_ref_right a b : forall cs p, str_ok (map fst cs) -> b < p ->
  slice_ref_from wc p a b cs = [].
Proof.
  induction cs as [|x cs IH]; intros p Hok H; [reflexivity|].
  cbn [map] in Hok. apply str_ok_cons in Hok as [Hx Hok].
  rewrite slice_ref_from_cons, IH by (assumption || destruct Hx as [Hw|[Hw|Hw]]; lia). rewrite app_nil_r.
  unfold keep_char, in_range. cbn [fst snd].
  destruct Hx as [Hw|[Hw|Hw]]; rewrite Hw; cbn [Z.eqb Pos.eqb andb].
  - replace ((a <? p) && (p <=? b)) with false by lia. reflexivity.
  - replace ((a <=? p) && (p + 1 <=? b)) with false by lia. reflexivity.
  - replace ((a <=? p) && (p + 2 <=? b)) with false by lia.
    replace ((a <=? p) && (p <? b)) with false by lia.
    replace ((a <=? p + 1) && (p + 1 <? b)) with false by lia. reflexivity.
Qed.

Lemma str_eqb_true : forall a b : str, str_eqb a b = true -> a = b.
Proof.
  unfold str_eqb. induction a as [|x a IH]; intros [|y b] H; cbn [list_eqb] in H; try discriminate; [reflexivity|].
  apply andb_prop in H as [H1 H2]. apply N.eqb_eq in H1. subst y. f_equal. now apply IH.
Qed.

(* one iteration of the run walk *)
Definition walk_part (ch : chunk) (start stop counter w : Z) : list chunk :=
  if (start <? counter + w) && (stop >=? counter) then
    let s_part := was_str wc (c_s ch) (start - counter) (stop - counter) in
    if str_eqb s_part (c_s ch) then [ch]
    else match s_part with
         | [] => []
         | _ => [mkChunk s_part (c_a ch)]
         end
  else [].

Lemma was_walk_cons ch rest start stop counter :
  was_walk wc (ch :: rest) start stop counter =
  bind (chunk_width wc ch) (fun w =>
    let part := walk_part ch start stop counter w in
    if stop <? counter + w then Ok part
    else bind (was_walk wc rest start stop (counter + w)) (fun ps => Ok (part ++ ps))).
Proof. reflexivity. Qed.

(* whichever of the three branches is taken (run object reused, new run, nothing),
   the cells contributed are those of the helper's string in the run's state *)
Lemma walk_part_cells ch a b K w :
  cells (walk_part ch a b K w) =
  if (a <? K + w) && (b >=? K) then withst (eff (c_a ch)) (was_str wc (c_s ch) (a - K) (b - K)) else [].
Proof.
  unfold walk_part. destruct ((a <? K + w) && (b >=? K)); [|reflexivity]. cbv zeta.
  destruct (str_eqb (was_str wc (c_s ch) (a - K) (b - K)) (c_s ch)) eqn:E.
  - apply str_eqb_true in E. rewrite E. cbn [cells flat_map]. now rewrite app_nil_r.
  - destruct (was_str wc (c_s ch) (a - K) (b - K)) as [|c s]; [reflexivity|].
    cbn [cells flat_map]. now rewrite app_nil_r.
Qed.

Lemma walk_part_exact ch a b K :
  str_ok (c_s ch) ->
  cells (walk_part ch a b K (wsum (chunk_cells ch))) = slice_ref_from wc K a b (chunk_cells ch).
Proof.
  intro Hok. pose proof (str_ok_chunk_cells ch Hok) as Hok'.
  rewrite walk_part_cells.
  destruct ((a <? K + wsum (chunk_cells ch)) && (b >=? K)) eqn:E.
  - unfold was_str. rewrite was_chars_keep by assumption. now rewrite Z.add_0_r.
  - symmetry. destruct (a <? K + wsum (chunk_cells ch)) eqn:E1.
    + apply slice_ref_right; [assumption|lia].
    + apply slice_ref_left; [assumption|lia].
Qed.

Lemma was_walk_exact a b : forall f K, fs_ok f ->
  exists parts, was_walk wc f a b K = Ok parts /\ cells parts = slice_ref_from wc K a b (cells f).
Proof.
  induction f as [|ch f IH]; intros K Hok.
  - exists []. split; reflexivity.
  - apply fs_ok_cons in Hok as [Hc Hok].
    rewrite was_walk_cons, chunk_width_ok by assumption. cbn [bind]. cbv zeta.
    rewrite cells_cons, slice_ref_from_app.
    destruct (b <? K + wsum (chunk_cells ch)) eqn:E.
    + (* break: nothing of the remaining runs belongs to the range *)
      eexists. split; [reflexivity|].
      rewrite walk_part_exact by assumption.
      rewrite (slice_ref_right a b (cells f)); [now rewrite app_nil_r|now apply fs_ok_cells|lia].
    + destruct (IH (K + wsum (chunk_cells ch)) Hok) as [ps [Hps Hcells]].
      rewrite Hps. cbn [bind]. eexists. split; [reflexivity|].
      now rewrite cells_app, walk_part_exact, Hcells.
Qed.

(* MAIN STATEMENT, character by character: for every run layout the cells of the
   slice - zero-width characters and formatting included - are the reference
   [slice_ref] applied to the cells of f *)
Theorem slice_cells f a b :
  fs_ok f -> 0 <= a -> 0 <= b ->
  exists r, fs_was wc f (IxSlice (Some a) (Some b)) = Ok r /\
            cells r = slice_ref wc a b (cells f).
Proof.
  intros Hok Ha Hb. unfold fs_was.
  pose proof (fs_ok_cells f Hok) as Hok'.
  rewrite <- map_fst_cells, wcswidth_cells by assumption.
  pose proof (wsum_nonneg _ Hok') as Hn.
  destruct (wsum (cells f) =? -1) eqn:E; [lia|].
  rewrite fs_width_wsum by assumption. cbn [bind ws_normalize_slice].
  replace (a <? 0) with false by lia. replace (b <? 0) with false by lia. cbn [fst snd].
  destruct (was_walk_exact a b f 0 Hok) as [parts [Hw Hcells]].
  rewrite Hw. cbn [bind]. unfold slice_ref.
  destruct parts as [|p ps].
  - eexists. split; [reflexivity|]. rewrite <- Hcells. reflexivity.
  - eexists. split; [reflexivity|]. exact Hcells.
Qed.

Section Slice.
Hypothesis Hsp : wc 32%N = 1.     (* the replacement character is one column wide *)

(* -- the column view of the reference: what each requested column shows --------- *)
Lemma colcells_keep_char a b p x :
  w012 (fst x) -> colcells_of wc (keep_char wc a b (p, x)) = charwin p a b x.
Proof.
  intro Hx. unfold keep_char, charwin, in_range, inwin, colcells_of. cbn [fst snd].
  destruct Hx as [Hw|[Hw|Hw]]; rewrite Hw; cbn [Z.eqb Pos.eqb andb].
  - destruct ((a <? p) && (p <=? b)); [|reflexivity].
    cbn [flat_map]. unfold expand. rewrite Hw. reflexivity.
  - destruct ((a <=? p) && (p + 1 <=? b)) eqn:E.
    + replace ((a <=? p) && (p <? b)) with true by lia.
      cbn [flat_map]. unfold expand. rewrite Hw. reflexivity.
    + replace ((a <=? p) && (p <? b)) with false by lia. reflexivity.
  - destruct ((a <=? p) && (p + 2 <=? b)) eqn:E.
    + replace ((a <=? p) && (p <? b)) with true by lia.
      replace ((a <=? p + 1) && (p + 1 <? b)) with true by lia.
      cbn [flat_map]. unfold expand. rewrite Hw. reflexivity.
    + destruct ((a <=? p) && (p <? b)) eqn:E1; destruct ((a <=? p + 1) && (p + 1 <? b)) eqn:E2;
        cbn [xorb flat_map]; try reflexivity; try lia;
        unfold expand; cbn [fst snd]; rewrite Hsp; reflexivity.
Qed.

Lemma colcells_slice_ref a b : forall cs p, str_ok (map fst cs) ->
  colcells_of wc (slice_ref_from wc p a b cs) = cwin p a b cs.
Proof.
  induction cs as [|x cs IH]; intros p Hok; [reflexivity|].
  cbn [map] in Hok. apply str_ok_cons in Hok as [Hx Hok].
  rewrite slice_ref_from_cons, colcells_of_app, colcells_keep_char by assumption.
  cbn [cwin]. now rewrite IH.
Qed.

(* the column cells of the slice are the requested columns of f, an orphaned half
   of a wide character shown as a space in its state *)
Theorem slice_is_columns f a b :
  fs_ok f -> 0 <= a -> 0 <= b ->
  exists r, fs_was wc f (IxSlice (Some a) (Some b)) = Ok r /\
            colcells wc r = col_slice a b (colcells wc f).
Proof.
  intros Hok Ha Hb. destruct (slice_cells f a b Hok Ha Hb) as [r [Hr Hc]].
  pose proof (fs_ok_cells f Hok) as Hok'.
  exists r. split; [assumption|]. unfold colcells at 1. rewrite Hc. unfold slice_ref.
  rewrite colcells_slice_ref, cwin_cut by assumption.
  unfold col_slice, colcells. rewrite window_firstn_skipn.
  replace (Z.max a 0) with a by lia. now rewrite Z.sub_0_r.
Qed.

(* hence: the result is as wide as the number of requested columns that exist *)
Lemma cut_length : forall l, length (cut l) = length l.
Proof.
  induction l as [|x l IH]; [reflexivity|].
  destruct x as [c s|c s|c s]; cbn [cut length]; try (now rewrite IH).
  destruct l as [|y l']; [reflexivity|].
  destruct y as [c' s'|c' s'|c' s']; cbn [cut length] in *; now rewrite IH.
Qed.

Corollary slice_width f a b :
  fs_ok f -> 0 <= a <= b ->
  exists r, fs_was wc f (IxSlice (Some a) (Some b)) = Ok r /\
            let W := Z.of_nat (length (colcells wc f)) in
            Z.of_nat (length (colcells wc r)) = Z.min b W - Z.min a W.
Proof.
  intros Hok Hab. destruct (slice_is_columns f a b Hok) as [r [Hr Hcol]]; try lia.
  exists r. split; [assumption|]. cbv zeta. rewrite Hcol. unfold col_slice.
  rewrite cut_length, firstn_length, skipn_length. lia.
Qed.

(* -- zero-width characters ---------------------------------------------------------- *)
Lemma zw_cells_app a b : zw_cells wc (a ++ b) = zw_cells wc a ++ zw_cells wc b.
Proof. apply filter_app. Qed.

(* the zero-width characters of the reference slice: exactly those of the line whose
   column s satisfies a < s <= b (a replacement space is not one of them) *)
Lemma marks_from_cons x cs p a b :
  marks_in_range_from wc p a b (x :: cs) =
  (if mark_in_range wc a b (p, x) then [x] else []) ++ marks_in_range_from wc (p + wc (fst x)) a b cs.
Proof.
  unfold marks_in_range_from. cbn [positions filter].
  now destruct (mark_in_range wc a b (p, x)).
Qed.

Lemma zw_slice_ref a b : forall cs p, str_ok (map fst cs) ->
  zw_cells wc (slice_ref_from wc p a b cs) = marks_in_range_from wc p a b cs.
Proof.
  induction cs as [|x cs IH]; intros p Hok; [reflexivity|].
  cbn [map] in Hok. apply str_ok_cons in Hok as [Hx Hok].
  rewrite slice_ref_from_cons, zw_cells_app, marks_from_cons, IH by assumption. f_equal.
  unfold keep_char, mark_in_range, zero_width, zw_cells. cbn [fst snd].
  destruct Hx as [Hw|[Hw|Hw]]; rewrite Hw; cbn [Z.eqb Pos.eqb andb].
  - destruct ((a <? p) && (p <=? b)); [|reflexivity].
    cbn [filter]. unfold zero_width. rewrite Hw. reflexivity.
  - destruct ((a <=? p) && (p + 1 <=? b)); [|reflexivity].
    cbn [filter]. unfold zero_width. rewrite Hw. reflexivity.
  - destruct ((a <=? p) && (p + 2 <=? b)).
    + cbn [filter]. unfold zero_width. rewrite Hw. reflexivity.
    + destruct (xorb (in_range a b p) (in_range a b (p + 1))); [|reflexivity].
      cbn [filter]. unfold zero_width. cbn [fst]. rewrite Hsp. reflexivity.
Qed.

(* every zero-width character whose column s satisfies a < s <= b is in the slice
   with its own formatting, in order - and the slice has no other zero-width
   character (none at column a, none beyond b, none invented) *)
Theorem slice_marks f a b :
  fs_ok f -> 0 <= a -> 0 <= b ->
  exists r, fs_was wc f (IxSlice (Some a) (Some b)) = Ok r /\
            zw_cells wc (cells r) = marks_in_range wc a b (cells f).
Proof.
  intros Hok Ha Hb. destruct (slice_cells f a b Hok Ha Hb) as [r [Hr Hc]].
  exists r. split; [assumption|]. rewrite Hc. apply zw_slice_ref. now apply fs_ok_cells.
Qed.

(* zero-width characters of the result: a sub-sequence of the original's, for
   every index form and whatever the widths of the characters (none is invented,
   their order is kept) *)
Lemma subseq_nil_l {A} : forall l : list A, subseq [] l.
Proof. induction l; constructor; auto. Qed.

Lemma subseq_refl {A} : forall l : list A, subseq l l.
Proof. induction l; [apply sub_nil|now apply sub_take]. Qed.

Lemma subseq_app {A} : forall (a b a' b' : list A),
  subseq a b -> subseq a' b' -> subseq (a ++ a') (b ++ b').
Proof.
  intros a b a' b' H H'. induction H; cbn [app].
  - exact H'.
  - now apply sub_skip.
  - now apply sub_take.
Qed.

Lemma zw_spaces st n : zw_cells wc (withst st (repeat 32%N n)) = [].
Proof.
  induction n as [|n IH]; [reflexivity|].
  cbn [repeat withst map zw_cells filter]. unfold zero_width at 1. cbn [fst]. rewrite Hsp. exact IH.
Qed.

Lemma zw_was_char c st p pe lo hi :
  subseq (zw_cells wc (withst st (was_char c p pe lo hi))) (zw_cells wc (withst st [c])).
Proof.
  unfold was_char.
  destruct ((p =? lo) && (pe =? lo)); [apply subseq_nil_l|].
  destruct ((p >=? lo) && (pe <=? hi)); [apply subseq_refl|].
  rewrite zw_spaces. apply subseq_nil_l.
Qed.

Lemma zw_was_chars st lo hi : forall s p,
  subseq (zw_cells wc (withst st (was_chars wc s p lo hi))) (zw_cells wc (withst st s)).
Proof.
  induction s as [|c s IH]; intro p; [constructor|].
  change (withst st (c :: s)) with (withst st [c] ++ withst st s).
  cbn [was_chars]. rewrite withst_app, !zw_cells_app.
  apply subseq_app; [apply zw_was_char|apply IH].
Qed.

Lemma zw_walk_part ch a b K w :
  subseq (zw_cells wc (cells (walk_part ch a b K w))) (zw_cells wc (chunk_cells ch)).
Proof.
  rewrite walk_part_cells.
  destruct ((a <? K + w) && (b >=? K)); [|apply subseq_nil_l].
  rewrite chunk_cells_withst. apply zw_was_chars.
Qed.

Lemma zw_was_walk a b : forall f K parts,
  was_walk wc f a b K = Ok parts ->
  subseq (zw_cells wc (cells parts)) (zw_cells wc (cells f)).
Proof.
  induction f as [|ch f IH]; intros K parts H.
  - injection H as <-. constructor.
  - rewrite was_walk_cons in H. destruct (chunk_width wc ch) as [w|e]; [|discriminate].
    cbn [bind] in H. cbv zeta in H. rewrite cells_cons, zw_cells_app.
    destruct (b <? K + w).
    + injection H as <-. rewrite <- (app_nil_r (zw_cells wc (cells _))).
      apply subseq_app; [apply zw_walk_part|apply subseq_nil_l].
    + destruct (was_walk wc f a b (K + w)) as [ps|e] eqn:E; [|discriminate].
      cbn [bind] in H. injection H as <-. rewrite cells_app, zw_cells_app.
      apply subseq_app; [apply zw_walk_part|eapply IH; eassumption].
Qed.

Theorem slice_zero_width_subseq f ix r :
  fs_was wc f ix = Ok r ->
  subseq (zw_cells wc (cells r)) (zw_cells wc (cells f)).
Proof.
  unfold fs_was. intro H.
  destruct (wcswidth wc (text f) =? -1); [discriminate|].
  destruct (fs_width wc f) as [wd|e]; [|discriminate]. cbn [bind] in H.
  destruct (ws_normalize_slice wd ix) as [se|e]; [|discriminate]. cbn [bind] in H.
  destruct (was_walk wc f (fst se) (snd se) 0) as [parts|e] eqn:E; [|discriminate]. cbn [bind] in H.
  injection H as <-. apply zw_was_walk in E.
  destruct parts; [apply subseq_nil_l|exact E].
Qed.

End Slice.

End WidthProofs.

(* RECORD of the behaviour before the repository fix 3b8c3df ("width_aware_slice treats
   combining characters by their column in the whole string, not by the chunk they
   happen to start"), found while proving the statement above.  The old loop clamped the
   helper's start offset to max(0, a - K), reused a run lying wholly inside the range
   verbatim and skipped a run starting at column b, so the fate of the zero-width
   characters standing at the very beginning of a run depended on the run layout:
     a | grave b c   0..2 : the accent at column 1 (strictly inside) was DROPPED - its run
                            is cut by the right edge and the helper took the run's local
                            column 0 for the beginning of the slice;
     a | grave b     1..2 : the accent at the start column was KEPT (whole run reused),
                            while the single run  a grave b  1..2 dropped it;
     a | grave       0..1 : the accent at the end column was DROPPED (its run starts at b
                            and was skipped), while the single run  a grave  0..1 kept it.
   These three inputs are the corpus file corpus/C10/fix-3b8c3df.json and are Examples
   (with the results of the fixed code) in Props/C10.v. *)
