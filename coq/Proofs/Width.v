(* C10: width, width_at_offset and width_aware_slice measure and cut by columns. *)
From Curtsies Require Import Model.Base Model.Width Spec.Columns.
From Coq Require Import Lia ZifyBool ZifyNat ZifyN.
Close Scope N_scope.
Local Open Scope Z_scope.

Section WidthProofs.
Variable wc : char -> Z.

(* the range assumed of cwcwidth on the characters considered *)
Definition w012 (c : char) : Prop := wc c = 0 \/ wc c = 1 \/ wc c = 2.
Definition str_ok (s : str) : Prop := forall c, In c s -> w012 c.
Definition fs_ok (f : fmtstr) : Prop := str_ok (text f).

Lemma str_ok_cons c s : str_ok (c :: s) -> w012 c /\ str_ok s.
Proof. intro H. split; [apply H; now left|intros x Hx; apply H; now right]. Qed.

Lemma str_ok_app a b : str_ok (a ++ b) -> str_ok a /\ str_ok b.
Proof. intro H. split; intros x Hx; apply H, in_or_app; auto. Qed.

Lemma fs_ok_cons ch f : fs_ok (ch :: f) -> str_ok (c_s ch) /\ fs_ok f.
Proof. unfold fs_ok. cbn [text flat_map]. apply str_ok_app. Qed.

(* sum of the widths of the characters of a cell list *)
Fixpoint wsum (cs : list cell) : Z :=
  match cs with [] => 0 | x :: r => wc (fst x) + wsum r end.

Definition withst (st : sgr) (s : str) : list cell := map (fun x => (x, st)) s.

Lemma chunk_cells_withst ch : chunk_cells ch = withst (eff (c_a ch)) (c_s ch).
Proof. reflexivity. Qed.

Lemma colcells_of_app a b : colcells_of wc (a ++ b) = colcells_of wc a ++ colcells_of wc b.
Proof. unfold colcells_of. apply flat_map_app. Qed.

Lemma wsum_app a b : wsum (a ++ b) = wsum a + wsum b.
Proof. induction a as [|x a IH]; cbn [wsum app]; lia. Qed.

Lemma expand_length x : w012 (fst x) -> Z.of_nat (length (expand wc x)) = wc (fst x).
Proof.
  intros [H|[H|H]]; unfold expand; rewrite H; reflexivity.
Qed.

Lemma wsum_colcells cs : str_ok (map fst cs) -> wsum cs = Z.of_nat (length (colcells_of wc cs)).
Proof.
  induction cs as [|x cs IH]; intro Hok; [reflexivity|].
  cbn [map] in Hok. apply str_ok_cons in Hok as [Hx Hok].
  change (colcells_of wc (x :: cs)) with (expand wc x ++ colcells_of wc cs).
  rewrite app_length, Nat2Z.inj_add, expand_length, <- IH by assumption. reflexivity.
Qed.

Lemma wsum_nonneg cs : str_ok (map fst cs) -> 0 <= wsum cs.
Proof. intro H. rewrite wsum_colcells by assumption. lia. Qed.

Lemma map_fst_withst st s : map fst (withst st s) = s.
Proof. unfold withst. rewrite map_map. cbn [fst]. apply map_id. Qed.

Lemma wcswidth_wsum st s : str_ok s -> wcswidth wc s = wsum (withst st s).
Proof.
  induction s as [|c s IH]; intro Hok; [reflexivity|].
  apply str_ok_cons in Hok as [Hc Hok].
  cbn [wcswidth withst map wsum fst]. fold (withst st s).
  rewrite IH by assumption.
  pose proof (wsum_nonneg (withst st s)) as Hn. rewrite map_fst_withst in Hn. specialize (Hn Hok).
  destruct (wc c <? 0) eqn:E1; [destruct Hc as [H|[H|H]]; lia|].
  destruct (wsum (withst st s) <? 0) eqn:E2; [lia|reflexivity].
Qed.

Lemma chunk_width_ok ch : str_ok (c_s ch) -> chunk_width wc ch = Ok (wsum (chunk_cells ch)).
Proof.
  intro Hok. unfold chunk_width. rewrite chunk_cells_withst, (wcswidth_wsum (eff (c_a ch))) by assumption.
  pose proof (wsum_nonneg (withst (eff (c_a ch)) (c_s ch))) as Hn. rewrite map_fst_withst in Hn.
  specialize (Hn Hok).
  destruct (wsum (withst (eff (c_a ch)) (c_s ch)) <? 0) eqn:E; [lia|].
  now rewrite andb_false_r.
Qed.

Lemma cells_cons ch f : cells (ch :: f) = chunk_cells ch ++ cells f.
Proof. reflexivity. Qed.

Lemma map_fst_cells f : map fst (cells f) = text f.
Proof.
  induction f as [|ch f IH]; [reflexivity|].
  rewrite cells_cons, map_app. cbn [text flat_map].
  f_equal; [rewrite chunk_cells_withst; apply map_fst_withst|exact IH].
Qed.

Lemma fs_width_wsum f : fs_ok f -> fs_width wc f = Ok (wsum (cells f)).
Proof.
  induction f as [|ch f IH]; intro Hok; [reflexivity|].
  apply fs_ok_cons in Hok as [Hc Hok].
  cbn [fs_width]. rewrite chunk_width_ok by assumption. cbn [bind].
  rewrite IH by assumption. cbn [bind]. now rewrite cells_cons, wsum_app.
Qed.

(* ---- C10, first part: width = number of column cells ---------------------- *)
Theorem width_is_columns f :
  fs_ok f -> fs_width wc f = Ok (Z.of_nat (length (colcells wc f))).
Proof.
  intro Hok. rewrite fs_width_wsum by assumption. unfold colcells.
  rewrite wsum_colcells; [reflexivity|]. now rewrite map_fst_cells.
Qed.

(* ---- C10, second part: width_at_offset n = column cells of the first n characters *)
Lemma in_firstn {A} (x : A) : forall n l, In x (firstn n l) -> In x l.
Proof.
  induction n as [|n IH]; intros [|y l] H; cbn [firstn] in H; try contradiction.
  destruct H as [H|H]; [now left|right; now apply IH].
Qed.

Lemma str_ok_firstn n s : str_ok s -> str_ok (firstn n s).
Proof. intros H c Hc. apply H. eapply in_firstn; eauto. Qed.

Lemma wcswidth_cells cs : str_ok (map fst cs) -> wcswidth wc (map fst cs) = wsum cs.
Proof.
  induction cs as [|x cs IH]; intro Hok; [reflexivity|].
  cbn [map] in Hok. apply str_ok_cons in Hok as [Hx Hok].
  cbn [map wcswidth wsum]. rewrite IH by assumption.
  pose proof (wsum_nonneg cs Hok) as Hn.
  destruct (wc (fst x) <? 0) eqn:E1; [destruct Hx as [H|[H|H]]; lia|].
  destruct (wsum cs <? 0) eqn:E2; [lia|reflexivity].
Qed.

Theorem width_at_offset_is_columns f n :
  fs_ok f -> 0 <= n ->
  width_at_offset wc f n = Ok (Z.of_nat (length (colcells_of wc (firstn (Z.to_nat n) (cells f))))).
Proof.
  intros Hok Hn. unfold width_at_offset.
  destruct (n <? 0) eqn:E; [lia|].
  rewrite <- map_fst_cells, firstn_map.
  assert (Hok' : str_ok (map fst (firstn (Z.to_nat n) (cells f)))).
  { rewrite <- firstn_map, map_fst_cells. now apply str_ok_firstn. }
  rewrite wcswidth_cells by assumption. rewrite wsum_colcells by assumption.
  destruct (_ =? -1) eqn:E2; [lia|reflexivity].
Qed.


(* ---- C10, third part: width_aware_slice ------------------------------------ *)
(* the elements of a list of columns (starting at absolute column p) lying in [lo, hi) *)
Definition inwin (lo hi p : Z) : bool := (lo <=? p) && (p <? hi).

Fixpoint window (p lo hi : Z) (l : list col) : list col :=
  match l with
  | [] => []
  | x :: r => (if inwin lo hi p then [x] else []) ++ window (p + 1) lo hi r
  end.

Lemma window_firstn_skipn l : forall p lo hi,
  window p lo hi l = firstn (Z.to_nat (hi - Z.max lo p)) (skipn (Z.to_nat (lo - p)) l).
Proof.
  induction l as [|x l IH]; intros p lo hi.
  - now rewrite skipn_nil, firstn_nil.
  - cbn [window]. rewrite IH. unfold inwin.
    destruct (lo <=? p) eqn:E1; cbn [andb].
    + replace (Z.to_nat (lo - p)) with 0%nat by lia.
      replace (Z.to_nat (lo - (p + 1))) with 0%nat by lia. cbn [skipn].
      destruct (p <? hi) eqn:E2.
      * replace (Z.to_nat (hi - Z.max lo p)) with (S (Z.to_nat (hi - Z.max lo (p + 1)))) by lia.
        reflexivity.
      * replace (Z.to_nat (hi - Z.max lo p)) with 0%nat by lia.
        replace (Z.to_nat (hi - Z.max lo (p + 1))) with 0%nat by lia. reflexivity.
    + replace (Z.to_nat (lo - p)) with (S (Z.to_nat (lo - (p + 1)))) by lia. cbn [skipn app].
      replace (Z.max lo (p + 1)) with (Z.max lo p) by lia. reflexivity.
Qed.

Lemma window_empty_right l p lo hi : hi <= p -> window p lo hi l = [].
Proof.
  intro H. rewrite window_firstn_skipn.
  replace (Z.to_nat (hi - Z.max lo p)) with 0%nat by lia. reflexivity.
Qed.

(* what one character occupying columns p .. p + wc - 1 shows inside [lo, hi) *)
Definition charwin (p lo hi : Z) (x : cell) : list col :=
  if wc (fst x) =? 1 then (if inwin lo hi p then [Full (fst x) (snd x)] else [])
  else if wc (fst x) =? 2 then
    match inwin lo hi p, inwin lo hi (p + 1) with
    | true, true => [LeftH (fst x) (snd x); RightH (fst x) (snd x)]
    | false, false => []
    | _, _ => [Full 32%N (snd x)]
    end
  else [].

Fixpoint cwin (p lo hi : Z) (cs : list cell) : list col :=
  match cs with
  | [] => []
  | x :: r => charwin p lo hi x ++ cwin (p + wc (fst x)) lo hi r
  end.

Lemma cwin_cut : forall cs p lo hi, str_ok (map fst cs) ->
  cwin p lo hi cs = cut (window p lo hi (colcells_of wc cs)).
Proof.
  induction cs as [|x cs IH]; intros p lo hi Hok; [reflexivity|].
  cbn [map] in Hok. apply str_ok_cons in Hok as [Hx Hok].
  change (colcells_of wc (x :: cs)) with (expand wc x ++ colcells_of wc cs).
  cbn [cwin]. unfold charwin, expand.
  destruct Hx as [H|[H|H]]; rewrite H; cbn [Z.eqb Pos.eqb app].
  - replace (p + 0) with p by lia. now apply IH.
  - cbn [window]. rewrite (IH (p + 1)) by assumption.
    destruct (inwin lo hi p); reflexivity.
  - cbn [window]. replace (p + 1 + 1) with (p + 2) by lia.
    rewrite (IH (p + 2)) by assumption.
    destruct (inwin lo hi p) eqn:E1; destruct (inwin lo hi (p + 1)) eqn:E2; cbn [app cut]; try reflexivity.
    unfold inwin in E1, E2. rewrite window_empty_right by lia. reflexivity.
Qed.

Lemma cwin_app : forall a b p lo hi,
  cwin p lo hi (a ++ b) = cwin p lo hi a ++ cwin (p + wsum a) lo hi b.
Proof.
  induction a as [|x a IH]; intros b p lo hi; cbn [cwin app wsum].
  - now replace (p + 0) with p by lia.
  - rewrite IH, <- app_assoc. now replace (p + wc (fst x) + wsum a) with (p + (wc (fst x) + wsum a)) by lia.
Qed.

Lemma charwin_right p lo hi x : hi <= p -> charwin p lo hi x = [].
Proof.
  intro H. unfold charwin, inwin.
  replace (p <? hi) with false by lia. replace (p + 1 <? hi) with false by lia.
  rewrite !andb_false_r. now destruct (wc (fst x) =? 1), (wc (fst x) =? 2).
Qed.

Lemma cwin_right : forall cs p lo hi, str_ok (map fst cs) -> hi <= p -> cwin p lo hi cs = [].
Proof.
  induction cs as [|x cs IH]; intros p lo hi Hok H; [reflexivity|].
  cbn [map] in Hok. apply str_ok_cons in Hok as [Hx Hok].
  cbn [cwin]. rewrite charwin_right by assumption. rewrite IH; [reflexivity|assumption|].
  destruct Hx as [Hw|[Hw|Hw]]; lia.
Qed.

Lemma cwin_left : forall cs p lo hi, str_ok (map fst cs) -> p + wsum cs <= lo -> cwin p lo hi cs = [].
Proof.
  induction cs as [|x cs IH]; intros p lo hi Hok H; [reflexivity|].
  cbn [map] in Hok. apply str_ok_cons in Hok as [Hx Hok].
  pose proof (wsum_nonneg cs Hok) as Hn.
  cbn [cwin wsum] in *. rewrite IH by (assumption || lia). rewrite app_nil_r.
  unfold charwin, inwin.
  destruct Hx as [Hw|[Hw|Hw]]; rewrite Hw; cbn [Z.eqb Pos.eqb]; [reflexivity| |].
  - replace (lo <=? p) with false by lia. reflexivity.
  - replace (lo <=? p) with false by lia. replace (lo <=? p + 1) with false by lia. reflexivity.
Qed.

Lemma cwin_inside : forall cs p lo hi, str_ok (map fst cs) -> lo <= p -> p + wsum cs <= hi ->
  cwin p lo hi cs = colcells_of wc cs.
Proof.
  induction cs as [|x cs IH]; intros p lo hi Hok Hlo Hhi; [reflexivity|].
  cbn [map] in Hok. apply str_ok_cons in Hok as [Hx Hok].
  pose proof (wsum_nonneg cs Hok) as Hn.
  change (colcells_of wc (x :: cs)) with (expand wc x ++ colcells_of wc cs).
  cbn [cwin wsum] in *. rewrite IH by (assumption || destruct Hx as [Hw|[Hw|Hw]]; lia).
  f_equal. unfold charwin, expand, inwin.
  destruct Hx as [Hw|[Hw|Hw]]; rewrite Hw; cbn [Z.eqb Pos.eqb]; [reflexivity| |].
  - replace (lo <=? p) with true by lia. replace (p <? hi) with true by lia. reflexivity.
  - replace (lo <=? p) with true by lia. replace (p <? hi) with true by lia.
    replace (lo <=? p + 1) with true by lia. replace (p + 1 <? hi) with true by lia. reflexivity.
Qed.

Section Slice.
Hypothesis Hsp : wc 32%N = 1.     (* the replacement character is one column wide *)

Lemma colcells_spaces st n : colcells_of wc (withst st (repeat 32%N n)) = repeat (Full 32%N st) n.
Proof.
  induction n as [|n IH]; [reflexivity|].
  cbn [repeat withst map]. fold (withst st (repeat 32%N n)).
  change (colcells_of wc ((32%N, st) :: withst st (repeat 32%N n)))
    with (expand wc (32%N, st) ++ colcells_of wc (withst st (repeat 32%N n))).
  rewrite IH. unfold expand. cbn [fst snd]. rewrite Hsp. reflexivity.
Qed.

(* the body of the helper's loop for one character at local column p of a run
   that starts at absolute column K, against the requested range [a, b) *)
Lemma was_char_charwin c st K p a b :
  w012 c -> 0 <= p ->
  colcells_of wc (withst st (was_char c p (p + wc c) (Z.max 0 (a - K)) (b - K)))
  = charwin (K + p) a b (c, st).
Proof.
  intros Hc Hp. unfold was_char, charwin, inwin, interval_overlap. cbn [fst snd].
  destruct Hc as [Hw|[Hw|Hw]]; rewrite Hw; cbn [Z.eqb Pos.eqb].
  - (* zero width: nothing in either column view *)
    destruct ((p =? Z.max 0 (a - K)) && (p + 0 =? Z.max 0 (a - K))); [reflexivity|].
    destruct ((p >=? Z.max 0 (a - K)) && (p + 0 <=? b - K)).
    + cbn [withst map]. unfold colcells_of. cbn [flat_map]. unfold expand. cbn [fst]. now rewrite Hw.
    + rewrite colcells_spaces.
      replace (Z.to_nat (Z.max 0 (Z.min (p + 0) (b - K) - Z.max p (Z.max 0 (a - K))))) with 0%nat by lia.
      reflexivity.
  - (* one column *)
    replace ((p =? Z.max 0 (a - K)) && (p + 1 =? Z.max 0 (a - K))) with false by lia.
    destruct ((p >=? Z.max 0 (a - K)) && (p + 1 <=? b - K)) eqn:E.
    + replace ((a <=? K + p) && (K + p <? b)) with true by lia.
      cbn [withst map]. unfold colcells_of. cbn [flat_map]. unfold expand. cbn [fst snd]. now rewrite Hw.
    + replace ((a <=? K + p) && (K + p <? b)) with false by lia.
      rewrite colcells_spaces.
      replace (Z.to_nat (Z.max 0 (Z.min (p + 1) (b - K) - Z.max p (Z.max 0 (a - K))))) with 0%nat by lia.
      reflexivity.
  - (* two columns *)
    replace ((p =? Z.max 0 (a - K)) && (p + 2 =? Z.max 0 (a - K))) with false by lia.
    destruct ((p >=? Z.max 0 (a - K)) && (p + 2 <=? b - K)) eqn:E.
    + replace ((a <=? K + p) && (K + p <? b)) with true by lia.
      replace ((a <=? K + p + 1) && (K + p + 1 <? b)) with true by lia.
      cbn [withst map]. unfold colcells_of. cbn [flat_map]. unfold expand. cbn [fst snd]. now rewrite Hw.
    + rewrite colcells_spaces.
      destruct ((a <=? K + p) && (K + p <? b)) eqn:E1;
      destruct ((a <=? K + p + 1) && (K + p + 1 <? b)) eqn:E2; try lia.
      * replace (Z.to_nat (Z.max 0 (Z.min (p + 2) (b - K) - Z.max p (Z.max 0 (a - K))))) with 1%nat by lia.
        reflexivity.
      * replace (Z.to_nat (Z.max 0 (Z.min (p + 2) (b - K) - Z.max p (Z.max 0 (a - K))))) with 1%nat by lia.
        reflexivity.
      * replace (Z.to_nat (Z.max 0 (Z.min (p + 2) (b - K) - Z.max p (Z.max 0 (a - K))))) with 0%nat by lia.
        reflexivity.
Qed.

Lemma withst_app st a b : withst st (a ++ b) = withst st a ++ withst st b.
Proof. apply map_app. Qed.

Lemma was_chars_cwin st K a b : forall s p, str_ok s -> 0 <= p ->
  colcells_of wc (withst st (was_chars wc s p (Z.max 0 (a - K)) (b - K)))
  = cwin (K + p) a b (withst st s).
Proof.
  induction s as [|c s IH]; intros p Hok Hp; [reflexivity|].
  apply str_ok_cons in Hok as [Hc Hok].
  change (withst st (c :: s)) with ((c, st) :: withst st s).
  cbn [was_chars cwin fst].
  rewrite withst_app, colcells_of_app, was_char_charwin by assumption.
  rewrite IH by (assumption || destruct Hc as [Hw|[Hw|Hw]]; lia).
  now rewrite Z.add_assoc.
Qed.

(* one iteration of the run walk *)
Definition walk_part (ch : chunk) (start stop counter w : Z) : list chunk :=
  if (start <? counter + w) && (stop >? counter) then
    let s := Z.max 0 (start - counter) in
    let e := Z.min (stop - counter) w in
    if e - s =? w then [ch]
    else [mkChunk (was_str wc (c_s ch) (Z.max 0 (start - counter)) (stop - counter)) (c_a ch)]
  else [].

Lemma was_walk_cons ch rest start stop counter :
  was_walk wc (ch :: rest) start stop counter =
  bind (chunk_width wc ch) (fun w =>
    let part := walk_part ch start stop counter w in
    if stop <? counter + w then Ok part
    else bind (was_walk wc rest start stop (counter + w)) (fun ps => Ok (part ++ ps))).
Proof. reflexivity. Qed.

Lemma colcells_app f g : colcells wc (f ++ g) = colcells wc f ++ colcells wc g.
Proof. unfold colcells, cells. now rewrite flat_map_app, colcells_of_app. Qed.

Lemma str_ok_chunk_cells ch : str_ok (c_s ch) -> str_ok (map fst (chunk_cells ch)).
Proof. rewrite chunk_cells_withst, map_fst_withst. auto. Qed.

Lemma walk_part_cwin ch a b K :
  str_ok (c_s ch) ->
  colcells wc (walk_part ch a b K (wsum (chunk_cells ch))) = cwin K a b (chunk_cells ch).
Proof.
  intro Hok. pose proof (str_ok_chunk_cells ch Hok) as Hok'.
  unfold walk_part. set (w := wsum (chunk_cells ch)).
  destruct ((a <? K + w) && (b >? K)) eqn:E.
  - cbv zeta. destruct (Z.min (b - K) w - Z.max 0 (a - K) =? w) eqn:E2.
    + (* the whole run lies inside the range: reused as it is *)
      unfold colcells. cbn [cells flat_map]. rewrite app_nil_r.
      symmetry. apply cwin_inside; [assumption|lia|fold w; lia].
    + (* cut by the helper *)
      unfold colcells. cbn [cells flat_map]. rewrite app_nil_r.
      unfold chunk_cells at 1. cbn [c_s c_a]. fold (withst (eff (c_a ch)) (was_str wc (c_s ch) (Z.max 0 (a - K)) (b - K))).
      unfold was_str. rewrite was_chars_cwin by (assumption || lia).
      now rewrite Z.add_0_r.
  - (* no overlap *)
    cbn. symmetry.
    destruct (a <? K + w) eqn:E1.
    + apply cwin_right; [assumption|lia].
    + apply cwin_left; [assumption|fold w; lia].
Qed.

Lemma fs_ok_cells f : fs_ok f -> str_ok (map fst (cells f)).
Proof. now rewrite map_fst_cells. Qed.

Lemma was_walk_cwin a b : forall f K, fs_ok f ->
  exists parts, was_walk wc f a b K = Ok parts /\ colcells wc parts = cwin K a b (cells f).
Proof.
  induction f as [|ch f IH]; intros K Hok.
  - exists []. split; reflexivity.
  - apply fs_ok_cons in Hok as [Hc Hok].
    rewrite was_walk_cons, chunk_width_ok by assumption. cbn [bind]. cbv zeta.
    rewrite cells_cons, cwin_app.
    destruct (b <? K + wsum (chunk_cells ch)) eqn:E.
    + (* break *)
      eexists. split; [reflexivity|].
      rewrite walk_part_cwin by assumption.
      rewrite (cwin_right (cells f)); [now rewrite app_nil_r|now apply fs_ok_cells|lia].
    + destruct (IH (K + wsum (chunk_cells ch)) Hok) as [ps [Hps Hcol]].
      rewrite Hps. cbn [bind]. eexists. split; [reflexivity|].
      now rewrite colcells_app, walk_part_cwin, Hcol.
Qed.

(* main statement: the column cells of the slice are the requested columns of f,
   an orphaned half of a wide character shown as a space in its state *)
Theorem slice_is_columns f a b :
  fs_ok f -> 0 <= a -> 0 <= b ->
  exists r, fs_was wc f (IxSlice (Some a) (Some b)) = Ok r /\
            colcells wc r = col_slice a b (colcells wc f).
Proof.
  intros Hok Ha Hb. unfold fs_was.
  pose proof (fs_ok_cells f Hok) as Hok'.
  rewrite <- map_fst_cells, wcswidth_cells by assumption.
  pose proof (wsum_nonneg _ Hok') as Hn.
  destruct (wsum (cells f) =? -1) eqn:E; [lia|].
  rewrite fs_width_wsum by assumption. cbn [bind ws_normalize_slice].
  replace (a <? 0) with false by lia. replace (b <? 0) with false by lia. cbn [fst snd].
  destruct (was_walk_cwin a b f 0 Hok) as [parts [Hw Hcol]].
  rewrite Hw. cbn [bind].
  assert (Hspec : cwin 0 a b (cells f) = col_slice a b (colcells wc f)).
  { rewrite cwin_cut by assumption. unfold col_slice, colcells. rewrite window_firstn_skipn.
    replace (Z.max a 0) with a by lia. now rewrite Z.sub_0_r. }
  destruct parts as [|p ps].
  - eexists. split; [reflexivity|]. rewrite <- Hspec, <- Hcol. reflexivity.
  - eexists. split; [reflexivity|]. now rewrite Hcol.
Qed.


(* hence: the result is as wide as the number of requested columns that exist *)
Lemma cut_length : forall l, length (cut l) = length l.
Proof.
  induction l as [|x l IH]; [reflexivity|].
  destruct x as [c s|c s|c s]; cbn [cut length]; try (now rewrite IH).
  destruct l as [|y l']; [reflexivity|].
  destruct y as [c' s'|c' s'|c' s']; cbn [cut length] in *; now rewrite IH.
Qed.

Corollary slice_width f a b :
  fs_ok f -> 0 <= a <= b ->
  exists r, fs_was wc f (IxSlice (Some a) (Some b)) = Ok r /\
            let W := Z.of_nat (length (colcells wc f)) in
            Z.of_nat (length (colcells wc r)) = Z.min b W - Z.min a W.
Proof.
  intros Hok Hab. destruct (slice_is_columns f a b Hok) as [r [Hr Hcol]]; try lia.
  exists r. split; [assumption|]. cbv zeta. rewrite Hcol. unfold col_slice.
  rewrite cut_length, firstn_length, skipn_length. lia.
Qed.

(* zero-width characters of the result: a sub-sequence of the original's, for
   every index form (none is invented, their order is kept) *)
Lemma subseq_nil_l {A} : forall l : list A, subseq [] l.
Proof. induction l; constructor; auto. Qed.

Lemma subseq_refl {A} : forall l : list A, subseq l l.
Proof. induction l; [apply sub_nil|now apply sub_take]. Qed.

Lemma subseq_app {A} : forall (a b a' b' : list A),
  subseq a b -> subseq a' b' -> subseq (a ++ a') (b ++ b').
Proof.
  intros a b a' b' H H'. induction H; cbn [app].
  - exact H'.
  - now apply sub_skip.
  - now apply sub_take.
Qed.

Lemma zw_cells_app a b : zw_cells wc (a ++ b) = zw_cells wc a ++ zw_cells wc b.
Proof. apply filter_app. Qed.

Lemma zw_spaces st n : zw_cells wc (withst st (repeat 32%N n)) = [].
Proof.
  induction n as [|n IH]; [reflexivity|].
  cbn [repeat withst map zw_cells filter]. unfold zero_width at 1. cbn [fst]. rewrite Hsp. exact IH.
Qed.

Lemma zw_was_char c st p pe lo hi :
  subseq (zw_cells wc (withst st (was_char c p pe lo hi))) (zw_cells wc (withst st [c])).
Proof.
  unfold was_char.
  destruct ((p =? lo) && (pe =? lo)); [apply subseq_nil_l|].
  destruct ((p >=? lo) && (pe <=? hi)); [apply subseq_refl|].
  rewrite zw_spaces. apply subseq_nil_l.
Qed.

Lemma zw_was_chars st lo hi : forall s p,
  subseq (zw_cells wc (withst st (was_chars wc s p lo hi))) (zw_cells wc (withst st s)).
Proof.
  induction s as [|c s IH]; intro p; [constructor|].
  change (withst st (c :: s)) with (withst st [c] ++ withst st s).
  cbn [was_chars]. rewrite withst_app, !zw_cells_app.
  apply subseq_app; [apply zw_was_char|apply IH].
Qed.

Lemma cells_app f g : cells (f ++ g) = cells f ++ cells g.
Proof. apply flat_map_app. Qed.

Lemma zw_walk_part ch a b K w :
  subseq (zw_cells wc (cells (walk_part ch a b K w))) (zw_cells wc (chunk_cells ch)).
Proof.
  unfold walk_part.
  destruct ((a <? K + w) && (b >? K)); [|apply subseq_nil_l].
  cbv zeta. destruct (_ =? w).
  - cbn [cells flat_map]. rewrite app_nil_r. apply subseq_refl.
  - cbn [cells flat_map]. rewrite app_nil_r. apply zw_was_chars.
Qed.

Lemma zw_was_walk a b : forall f K parts,
  was_walk wc f a b K = Ok parts ->
  subseq (zw_cells wc (cells parts)) (zw_cells wc (cells f)).
Proof.
  induction f as [|ch f IH]; intros K parts H.
  - injection H as <-. constructor.
  - rewrite was_walk_cons in H. destruct (chunk_width wc ch) as [w|e]; [|discriminate].
    cbn [bind] in H. cbv zeta in H. rewrite cells_cons, zw_cells_app.
    destruct (b <? K + w).
    + injection H as <-. rewrite <- (app_nil_r (zw_cells wc (cells _))).
      apply subseq_app; [apply zw_walk_part|apply subseq_nil_l].
    + destruct (was_walk wc f a b (K + w)) as [ps|e] eqn:E; [|discriminate].
      cbn [bind] in H. injection H as <-. rewrite cells_app, zw_cells_app.
      apply subseq_app; [apply zw_walk_part|eapply IH; eassumption].
Qed.

Theorem slice_zero_width_subseq f ix r :
  fs_was wc f ix = Ok r ->
  subseq (zw_cells wc (cells r)) (zw_cells wc (cells f)).
Proof.
  unfold fs_was. intro H.
  destruct (wcswidth wc (text f) =? -1); [discriminate|].
  destruct (fs_width wc f) as [wd|e]; [|discriminate]. cbn [bind] in H.
  destruct (ws_normalize_slice wd ix) as [se|e]; [|discriminate]. cbn [bind] in H.
  destruct (was_walk wc f (fst se) (snd se) 0) as [parts|e] eqn:E; [|discriminate]. cbn [bind] in H.
  injection H as <-. apply zw_was_walk in E.
  destruct parts; [apply subseq_nil_l|exact E].
Qed.

End Slice.

End WidthProofs.

(* ---- C10, fourth part: the slice character by character (zero-width included) ---- *)
Section SliceCells.
Variable wc : char -> Z.

Lemma width_of_wsum cs : width_of wc cs = wsum wc cs.
Proof. induction cs as [|x cs IH]; cbn [width_of wsum]; [reflexivity|now rewrite IH]. Qed.

Lemma positions_app : forall x y p,
  positions wc p (x ++ y) = positions wc p x ++ positions wc (p + wsum wc x) y.
Proof.
  induction x as [|c x IH]; intros y p; cbn [positions app wsum].
  - now replace (p + 0) with p by lia.
  - rewrite IH. now replace (p + wc (fst c) + wsum wc x) with (p + (wc (fst c) + wsum wc x)) by lia.
Qed.

Lemma slice_ref_from_app x y p a b :
  slice_ref_from wc p a b (x ++ y) = slice_ref_from wc p a b x ++ slice_ref_from wc (p + wsum wc x) a b y.
Proof. unfold slice_ref_from. now rewrite positions_app, flat_map_app. Qed.

Lemma slice_ref_from_cons x cs p a b :
  slice_ref_from wc p a b (x :: cs) = keep_char wc a b (p, x) ++ slice_ref_from wc (p + wc (fst x)) a b cs.
Proof. reflexivity. Qed.

(* the body of the helper's loop is [keep_char], except for a zero-width character
   at local column 0 *)
Lemma was_char_keep c st K p a b :
  w012 wc c -> 0 <= p -> (0 < p \/ wc c <> 0) ->
  withst st (was_char c p (p + wc c) (Z.max 0 (a - K)) (b - K)) = keep_char wc a b (K + p, (c, st)).
Proof.
  intros Hc Hp Hnl. unfold was_char, keep_char, in_range, interval_overlap. cbn [fst snd].
  destruct Hc as [Hw|[Hw|Hw]]; rewrite Hw; cbn [Z.eqb Pos.eqb andb].
  - (* zero width, not at local column 0 *)
    destruct Hnl as [Hnl|Hnl]; [|lia].
    destruct ((p =? Z.max 0 (a - K)) && (p + 0 =? Z.max 0 (a - K))) eqn:E1.
    + replace ((a <? K + p) && (K + p <=? b)) with false by lia. reflexivity.
    + destruct ((p >=? Z.max 0 (a - K)) && (p + 0 <=? b - K)) eqn:E2.
      * replace ((a <? K + p) && (K + p <=? b)) with true by lia. reflexivity.
      * replace ((a <? K + p) && (K + p <=? b)) with false by lia.
        replace (Z.to_nat (Z.max 0 (Z.min (p + 0) (b - K) - Z.max p (Z.max 0 (a - K))))) with 0%nat by lia.
        reflexivity.
  - (* one column *)
    replace ((p =? Z.max 0 (a - K)) && (p + 1 =? Z.max 0 (a - K))) with false by lia.
    destruct ((p >=? Z.max 0 (a - K)) && (p + 1 <=? b - K)) eqn:E.
    + replace ((a <=? K + p) && (K + p + 1 <=? b)) with true by lia. reflexivity.
    + replace ((a <=? K + p) && (K + p + 1 <=? b)) with false by lia.
      replace (Z.to_nat (Z.max 0 (Z.min (p + 1) (b - K) - Z.max p (Z.max 0 (a - K))))) with 0%nat by lia.
      reflexivity.
  - (* two columns *)
    replace ((p =? Z.max 0 (a - K)) && (p + 2 =? Z.max 0 (a - K))) with false by lia.
    destruct ((p >=? Z.max 0 (a - K)) && (p + 2 <=? b - K)) eqn:E.
    + replace ((a <=? K + p) && (K + p + 2 <=? b)) with true by lia. reflexivity.
    + replace ((a <=? K + p) && (K + p + 2 <=? b)) with false by lia.
      destruct (xorb ((a <=? K + p) && (K + p <? b)) ((a <=? K + p + 1) && (K + p + 1 <? b))) eqn:E2.
      * replace (Z.to_nat (Z.max 0 (Z.min (p + 2) (b - K) - Z.max p (Z.max 0 (a - K))))) with 1%nat
          by (destruct ((a <=? K + p) && (K + p <? b)) eqn:E3;
              destruct ((a <=? K + p + 1) && (K + p + 1 <? b)) eqn:E4; cbn [xorb] in E2; lia).
        reflexivity.
      * replace (Z.to_nat (Z.max 0 (Z.min (p + 2) (b - K) - Z.max p (Z.max 0 (a - K))))) with 0%nat
          by (destruct ((a <=? K + p) && (K + p <? b)) eqn:E3;
              destruct ((a <=? K + p + 1) && (K + p + 1 <? b)) eqn:E4; cbn [xorb] in E2; lia).
        reflexivity.
Qed.

(* a zero-width character at local column 0 of a run cut by the helper is dropped,
   wherever the run stands *)
Lemma was_char_lead c lo hi : wc c = 0 -> 0 <= lo -> was_char c 0 (0 + wc c) lo hi = [].
Proof.
  intros Hw Hlo. unfold was_char, interval_overlap. rewrite Hw.
  destruct ((0 =? lo) && (0 + 0 =? lo)) eqn:E1; [reflexivity|].
  destruct ((0 >=? lo) && (0 + 0 <=? hi)) eqn:E2; [lia|].
  replace (Z.to_nat (Z.max 0 (Z.min (0 + 0) hi - Z.max 0 lo))) with 0%nat by lia. reflexivity.
Qed.

Lemma was_chars_keep st K a b : forall s p, str_ok wc s -> 0 < p ->
  withst st (was_chars wc s p (Z.max 0 (a - K)) (b - K)) = slice_ref_from wc (K + p) a b (withst st s).
Proof.
  induction s as [|c s IH]; intros p Hok Hp; [reflexivity|].
  apply str_ok_cons in Hok as [Hc Hok].
  change (withst st (c :: s)) with ((c, st) :: withst st s).
  rewrite slice_ref_from_cons. cbn [was_chars fst].
  rewrite withst_app, was_char_keep by (assumption || lia).
  rewrite IH by (assumption || destruct Hc as [Hw|[Hw|Hw]]; lia).
  now rewrite Z.add_assoc.
Qed.

Lemma span_marks_withst st : forall s,
  span_marks wc (withst st s) =
  match s with
  | [] => ([], [])
  | c :: r => if wc c =? 0 then ((c, st) :: fst (span_marks wc (withst st r)), snd (span_marks wc (withst st r)))
              else ([], withst st (c :: r))
  end.
Proof. intros [|c r]; reflexivity. Qed.

(* the helper applied to a whole run: the leading marks go, the rest is [keep_char] *)
Lemma was_chars_body st K a b : forall s, str_ok wc s ->
  withst st (was_chars wc s 0 (Z.max 0 (a - K)) (b - K))
  = slice_ref_from wc K a b (snd (span_marks wc (withst st s))).
Proof.
  induction s as [|c s IH]; intro Hok; [reflexivity|].
  apply str_ok_cons in Hok as [Hc Hok].
  rewrite span_marks_withst. cbn [was_chars].
  destruct (wc c =? 0) eqn:E.
  - cbn [snd]. rewrite was_char_lead by lia. cbn [app].
    replace (0 + wc c) with 0 by lia. now apply IH.
  - cbn [snd]. change (withst st (c :: s)) with ((c, st) :: withst st s).
    rewrite slice_ref_from_cons. cbn [fst].
    rewrite withst_app, was_char_keep by (assumption || lia).
    replace (K + 0) with K by lia. f_equal.
    rewrite was_chars_keep by (assumption || destruct Hc as [Hw|[Hw|Hw]]; lia).
    now replace (K + (0 + wc c)) with (K + wc c) by lia.
Qed.

(* facts about the split of a run into leading marks and body *)
Lemma span_marks_app cs : fst (span_marks wc cs) ++ snd (span_marks wc cs) = cs.
Proof.
  induction cs as [|x cs IH]; [reflexivity|]. cbn [span_marks].
  destruct (zero_width wc x); cbn [fst snd app]; [now rewrite IH|reflexivity].
Qed.

Lemma span_marks_lead_width cs : wsum wc (fst (span_marks wc cs)) = 0.
Proof.
  induction cs as [|x cs IH]; [reflexivity|]. cbn [span_marks].
  destruct (zero_width wc x) eqn:E; cbn [fst wsum]; [|reflexivity].
  unfold zero_width in E. lia.
Qed.

Lemma span_marks_body cs :
  snd (span_marks wc cs) = [] \/
  exists x r, snd (span_marks wc cs) = x :: r /\ zero_width wc x = false.
Proof.
  induction cs as [|x cs IH]; [now left|]. cbn [span_marks].
  destruct (zero_width wc x) eqn:E; cbn [snd]; [exact IH|].
  right. now exists x, cs.
Qed.

Lemma span_marks_width cs : wsum wc (snd (span_marks wc cs)) = wsum wc cs.
Proof.
  rewrite <- (span_marks_app cs) at 2. rewrite wsum_app, span_marks_lead_width. lia.
Qed.

Lemma str_ok_body cs : str_ok wc (map fst cs) -> str_ok wc (map fst (snd (span_marks wc cs))).
Proof.
  intro H. rewrite <- (span_marks_app cs), map_app in H. now apply str_ok_app in H.
Qed.

(* [keep_char] on stretches lying on one side of, or inside, the range *)
Lemma slice_ref_left a b : forall cs p, str_ok wc (map fst cs) -> p + wsum wc cs <= a ->
  slice_ref_from wc p a b cs = [].
Proof.
  induction cs as [|x cs IH]; intros p Hok H; [reflexivity|].
  cbn [map] in Hok. apply str_ok_cons in Hok as [Hx Hok].
  pose proof (wsum_nonneg wc cs Hok) as Hn. cbn [wsum] in H.
  rewrite slice_ref_from_cons, IH by (assumption || lia). rewrite app_nil_r.
  unfold keep_char, in_range. cbn [fst snd].
  destruct Hx as [Hw|[Hw|Hw]]; rewrite Hw; cbn [Z.eqb Pos.eqb andb].
  - replace ((a <? p) && (p <=? b)) with false by lia. reflexivity.
  - replace ((a <=? p) && (p + 1 <=? b)) with false by lia. reflexivity.
  - replace ((a <=? p) && (p + 2 <=? b)) with false by lia.
    replace ((a <=? p) && (p <? b)) with false by lia.
    replace ((a <=? p + 1) && (p + 1 <? b)) with false by lia. reflexivity.
Qed.

Lemma slice_ref_right_strict a b : forall cs p, str_ok wc (map fst cs) -> b < p ->
  slice_ref_from wc p a b cs = [].
Proof.
  induction cs as [|x cs IH]; intros p Hok H; [reflexivity|].
  cbn [map] in Hok. apply str_ok_cons in Hok as [Hx Hok].
  rewrite slice_ref_from_cons, IH by (assumption || destruct Hx as [Hw|[Hw|Hw]]; lia). rewrite app_nil_r.
  unfold keep_char, in_range. cbn [fst snd].
  destruct Hx as [Hw|[Hw|Hw]]; rewrite Hw; cbn [Z.eqb Pos.eqb andb].
  - replace ((a <? p) && (p <=? b)) with false by lia. reflexivity.
  - replace ((a <=? p) && (p + 1 <=? b)) with false by lia. reflexivity.
  - replace ((a <=? p) && (p + 2 <=? b)) with false by lia.
    replace ((a <=? p) && (p <? b)) with false by lia.
    replace ((a <=? p + 1) && (p + 1 <? b)) with false by lia. reflexivity.
Qed.

(* ... a stretch that begins with a character of positive width at or right of b *)
Lemma slice_ref_right a b x cs p : str_ok wc (map fst (x :: cs)) -> zero_width wc x = false -> b <= p ->
  slice_ref_from wc p a b (x :: cs) = [].
Proof.
  intros Hok Hx H. cbn [map] in Hok. apply str_ok_cons in Hok as [Hx' Hok].
  unfold zero_width in Hx.
  rewrite slice_ref_from_cons, slice_ref_right_strict by (assumption || destruct Hx' as [Hw|[Hw|Hw]]; lia).
  rewrite app_nil_r. unfold keep_char, in_range. cbn [fst snd].
  destruct Hx' as [Hw|[Hw|Hw]]; rewrite Hw; cbn [Z.eqb Pos.eqb andb]; [lia| |].
  - replace ((a <=? p) && (p + 1 <=? b)) with false by lia. reflexivity.
  - replace ((a <=? p) && (p + 2 <=? b)) with false by lia.
    replace ((a <=? p) && (p <? b)) with false by lia.
    replace ((a <=? p + 1) && (p + 1 <? b)) with false by lia. reflexivity.
Qed.

Lemma slice_ref_inside_strict a b : forall cs p, str_ok wc (map fst cs) -> a < p -> p + wsum wc cs <= b ->
  slice_ref_from wc p a b cs = cs.
Proof.
  induction cs as [|x cs IH]; intros p Hok Hlo Hhi; [reflexivity|].
  cbn [map] in Hok. apply str_ok_cons in Hok as [Hx Hok].
  pose proof (wsum_nonneg wc cs Hok) as Hn. cbn [wsum] in Hhi.
  rewrite slice_ref_from_cons, IH by (assumption || destruct Hx as [Hw|[Hw|Hw]]; lia).
  unfold keep_char. cbn [fst snd].
  destruct Hx as [Hw|[Hw|Hw]]; rewrite Hw; cbn [Z.eqb Pos.eqb andb].
  - replace ((a <? p) && (p <=? b)) with true by lia. reflexivity.
  - replace ((a <=? p) && (p + 1 <=? b)) with true by lia. reflexivity.
  - replace ((a <=? p) && (p + 2 <=? b)) with true by lia. reflexivity.
Qed.

(* ... a stretch that begins with a character of positive width at or right of a *)
Lemma slice_ref_inside a b x cs p : str_ok wc (map fst (x :: cs)) -> zero_width wc x = false ->
  a <= p -> p + wsum wc (x :: cs) <= b ->
  slice_ref_from wc p a b (x :: cs) = x :: cs.
Proof.
  intros Hok Hx Hlo Hhi. cbn [map] in Hok. apply str_ok_cons in Hok as [Hx' Hok].
  pose proof (wsum_nonneg wc cs Hok) as Hn. cbn [wsum] in Hhi. unfold zero_width in Hx.
  rewrite slice_ref_from_cons, slice_ref_inside_strict by (assumption || destruct Hx' as [Hw|[Hw|Hw]]; lia).
  unfold keep_char. cbn [fst snd].
  destruct Hx' as [Hw|[Hw|Hw]]; rewrite Hw; cbn [Z.eqb Pos.eqb andb]; [lia| |].
  - replace ((a <=? p) && (p + 1 <=? b)) with true by lia. reflexivity.
  - replace ((a <=? p) && (p + 2 <=? b)) with true by lia. reflexivity.
Qed.

Lemma body_width_pos x r : str_ok wc (map fst (x :: r)) -> zero_width wc x = false -> 0 < wsum wc (x :: r).
Proof.
  intros Hok Hx. cbn [map] in Hok. apply str_ok_cons in Hok as [Hx' Hok].
  pose proof (wsum_nonneg wc r Hok) as Hn. unfold zero_width in Hx. cbn [wsum].
  destruct Hx' as [Hw|[Hw|Hw]]; lia.
Qed.

(* one iteration of the run walk, character by character *)
Lemma walk_part_exact ch a b K :
  str_ok wc (c_s ch) ->
  cells (walk_part wc ch a b K (wsum wc (chunk_cells ch))) = run_ref wc a b K ch.
Proof.
  intro Hok. pose proof (str_ok_chunk_cells wc ch Hok) as Hok'.
  pose proof (str_ok_body _ Hok') as Hokb.
  unfold walk_part, run_ref. rewrite <- (span_marks_width (chunk_cells ch)).
  pose proof (span_marks_app (chunk_cells ch)) as Happ.
  pose proof (span_marks_body (chunk_cells ch)) as Hbody.
  remember (fst (span_marks wc (chunk_cells ch))) as lead eqn:Hl.
  remember (snd (span_marks wc (chunk_cells ch))) as body eqn:Hbd.
  remember (wsum wc body) as w eqn:Hw.
  destruct Hbody as [Hb|[x [r [Hb Hx]]]].
  - (* a run of marks only (or empty): width 0 *)
    rewrite Hb in *. cbn [wsum] in Hw. rewrite Hw in *. unfold lead_kept.
    cbn [slice_ref_from positions flat_map]. rewrite app_nil_r in *.
    destruct ((a <? K + 0) && (b >? K)) eqn:E.
    + cbv zeta. replace (Z.min (b - K) 0 - Z.max 0 (a - K) =? 0) with true by lia.
      replace ((a <? K) && (K <? b)) with true by lia.
      cbn [cells flat_map]. rewrite app_nil_r. now symmetry.
    + replace ((a <? K) && (K <? b)) with false by lia. reflexivity.
  - (* a run with a body *)
    rewrite Hb in *.
    assert (Hwp : 0 < w) by (rewrite Hw; now apply body_width_pos).
    unfold lead_kept. rewrite width_of_wsum, <- Hw.
    destruct ((a <? K + w) && (b >? K)) eqn:E.
    + cbv zeta. destruct (Z.min (b - K) w - Z.max 0 (a - K) =? w) eqn:E2.
      * (* the whole run lies inside the range: reused as it is, leading marks included *)
        replace ((a <=? K) && (K + w <=? b)) with true by lia.
        cbn [cells flat_map]. rewrite app_nil_r, <- Happ. f_equal.
        symmetry. apply slice_ref_inside; [assumption|assumption|lia|]. assert (Hle : K + w <= b) by lia. rewrite Hw in Hle. exact Hle.
      * (* cut by the helper: leading marks dropped *)
        replace ((a <=? K) && (K + w <=? b)) with false by lia.
        cbn [cells flat_map app]. rewrite app_nil_r.
        unfold chunk_cells at 1. cbn [c_s c_a].
        fold (withst (eff (c_a ch)) (was_str wc (c_s ch) (Z.max 0 (a - K)) (b - K))).
        unfold was_str. rewrite was_chars_body by assumption.
        rewrite <- chunk_cells_withst, <- Hbd. reflexivity.
    + (* no overlap *)
      replace ((a <=? K) && (K + w <=? b)) with false by lia. cbn [cells flat_map app].
      symmetry. destruct (a <? K + w) eqn:E1.
      * apply slice_ref_right; [assumption|assumption|lia].
      * apply slice_ref_left; [assumption|lia].
Qed.

Lemma run_ref_right ch a b K : str_ok wc (c_s ch) -> b < K -> run_ref wc a b K ch = [].
Proof.
  intros Hok H. pose proof (str_ok_chunk_cells wc ch Hok) as Hok'.
  pose proof (str_ok_body _ Hok') as Hokb. pose proof (wsum_nonneg wc _ Hokb) as Hn.
  unfold run_ref. rewrite slice_ref_right_strict by assumption. rewrite app_nil_r.
  unfold lead_kept. rewrite width_of_wsum.
  destruct (snd (span_marks wc (chunk_cells ch))).
  - replace ((a <? K) && (K <? b)) with false by lia. reflexivity.
  - replace ((a <=? K) && (K + wsum wc (c :: l) <=? b)) with false by lia. reflexivity.
Qed.

Lemma slice_ref_runs_right a b : forall f K, fs_ok wc f -> b < K -> slice_ref_runs_from wc K a b f = [].
Proof.
  induction f as [|ch f IH]; intros K Hok H; [reflexivity|].
  apply fs_ok_cons in Hok as [Hc Hok]. cbn [slice_ref_runs_from].
  rewrite run_ref_right by assumption. rewrite width_of_wsum.
  pose proof (wsum_nonneg wc _ (str_ok_chunk_cells wc ch Hc)) as Hn.
  apply IH; [assumption|lia].
Qed.

Lemma was_walk_exact a b : forall f K, fs_ok wc f ->
  exists parts, was_walk wc f a b K = Ok parts /\ cells parts = slice_ref_runs_from wc K a b f.
Proof.
  induction f as [|ch f IH]; intros K Hok.
  - exists []. split; reflexivity.
  - apply fs_ok_cons in Hok as [Hc Hok].
    rewrite was_walk_cons, chunk_width_ok by assumption. cbn [bind]. cbv zeta.
    cbn [slice_ref_runs_from]. change (width_of wc (chunk_cells ch)) with (wsum wc (chunk_cells ch)).
    destruct (b <? K + wsum wc (chunk_cells ch)) eqn:E.
    + (* break: nothing of the remaining runs is kept *)
      eexists. split; [reflexivity|].
      rewrite walk_part_exact by assumption.
      rewrite slice_ref_runs_right by (assumption || lia). now rewrite app_nil_r.
    + destruct (IH (K + wsum wc (chunk_cells ch)) Hok) as [ps [Hps Hcol]].
      rewrite Hps. cbn [bind]. eexists. split; [reflexivity|].
      now rewrite cells_app, walk_part_exact, Hcol.
Qed.

(* main statement, character by character: the cells of the slice, zero-width
   characters and formatting included, are those of the run-aware reference *)
Theorem slice_cells_exact f a b :
  fs_ok wc f -> 0 <= a -> 0 <= b ->
  exists r, fs_was wc f (IxSlice (Some a) (Some b)) = Ok r /\
            cells r = slice_ref_runs wc a b f.
Proof.
  intros Hok Ha Hb. unfold fs_was.
  pose proof (fs_ok_cells wc f Hok) as Hok'.
  rewrite <- map_fst_cells, wcswidth_cells by assumption.
  pose proof (wsum_nonneg wc _ Hok') as Hn.
  destruct (wsum wc (cells f) =? -1) eqn:E; [lia|].
  rewrite fs_width_wsum by assumption. cbn [bind ws_normalize_slice].
  replace (a <? 0) with false by lia. replace (b <? 0) with false by lia. cbn [fst snd].
  destruct (was_walk_exact a b f 0 Hok) as [parts [Hw Hcells]].
  rewrite Hw. cbn [bind]. unfold slice_ref_runs.
  destruct parts as [|p ps].
  - eexists. split; [reflexivity|]. rewrite <- Hcells. reflexivity.
  - eexists. split; [reflexivity|]. exact Hcells.
Qed.

(* where no run begins with a zero-width character the run layout does not matter:
   the slice is the layout-independent reference applied to the cells *)
Lemma span_marks_no_lead cs :
  match cs with [] => false | x :: _ => zero_width wc x end = false -> span_marks wc cs = ([], cs).
Proof. destruct cs as [|x cs]; [reflexivity|]. cbn [span_marks]. now intros ->. Qed.

Lemma run_ref_ideal a b K ch :
  starts_with_mark wc ch = false -> run_ref wc a b K ch = slice_ref_from wc K a b (chunk_cells ch).
Proof.
  intro H. unfold run_ref. rewrite span_marks_no_lead by exact H. cbn [fst snd].
  now destruct (lead_kept wc a b K (chunk_cells ch)).
Qed.

Lemma slice_ref_runs_ideal a b : forall f K, no_leading_marks wc f = true ->
  slice_ref_runs_from wc K a b f = slice_ref_from wc K a b (cells f).
Proof.
  induction f as [|ch f IH]; intros K H; [reflexivity|].
  cbn [no_leading_marks forallb] in H. apply andb_prop in H as [H1 H2].
  cbn [slice_ref_runs_from]. rewrite cells_cons, slice_ref_from_app.
  rewrite run_ref_ideal by (now destruct (starts_with_mark wc ch)).
  f_equal. now apply IH.
Qed.

Theorem slice_cells_ideal f a b :
  fs_ok wc f -> no_leading_marks wc f = true -> 0 <= a -> 0 <= b ->
  exists r, fs_was wc f (IxSlice (Some a) (Some b)) = Ok r /\
            cells r = slice_ref wc a b (cells f).
Proof.
  intros Hok Hl Ha Hb. destruct (slice_cells_exact f a b Hok Ha Hb) as [r [Hr Hc]].
  exists r. split; [assumption|]. rewrite Hc. now apply slice_ref_runs_ideal.
Qed.

(* the zero-width characters strictly inside the range *)
Lemma inner_marks_from_app x y p a b :
  inner_marks_from wc p a b (x ++ y) =
  inner_marks_from wc p a b x ++ inner_marks_from wc (p + wsum wc x) a b y.
Proof. unfold inner_marks_from. now rewrite positions_app, filter_app, map_app. Qed.

Lemma inner_marks_from_cons x cs p a b :
  inner_marks_from wc p a b (x :: cs) =
  (if inner_mark wc a b (p, x) then [x] else []) ++ inner_marks_from wc (p + wc (fst x)) a b cs.
Proof.
  unfold inner_marks_from. cbn [positions filter].
  now destruct (inner_mark wc a b (p, x)).
Qed.

Lemma inner_marks_keep a b : forall cs p,
  subseq (inner_marks_from wc p a b cs) (zw_cells wc (slice_ref_from wc p a b cs)).
Proof.
  induction cs as [|x cs IH]; intro p; [constructor|].
  rewrite inner_marks_from_cons, slice_ref_from_cons, zw_cells_app.
  apply subseq_app; [|apply IH].
  unfold inner_mark, keep_char. cbn [fst snd].
  destruct (zero_width wc x) eqn:Ez; cbn [andb]; [|apply subseq_nil_l].
  unfold zero_width in Ez. rewrite Ez.
  destruct ((a <? p) && (p <? b)) eqn:E; [|apply subseq_nil_l].
  replace ((a <? p) && (p <=? b)) with true by lia.
  cbn [zw_cells filter]. unfold zero_width. rewrite Ez. apply subseq_refl.
Qed.

Lemma span_marks_all cs : forallb (zero_width wc) cs = true -> span_marks wc cs = (cs, []).
Proof.
  induction cs as [|x cs IH]; intro H; [reflexivity|].
  cbn [forallb] in H. apply andb_prop in H as [H1 H2].
  cbn [span_marks]. rewrite H1, (IH H2). reflexivity.
Qed.

Lemma zw_cells_all cs : forallb (zero_width wc) cs = true -> zw_cells wc cs = cs.
Proof.
  induction cs as [|x cs IH]; intro H; [reflexivity|].
  cbn [forallb] in H. apply andb_prop in H as [H1 H2].
  cbn [zw_cells filter]. rewrite H1. f_equal. now apply IH.
Qed.

Lemma inner_marks_all a b K : forall cs, forallb (zero_width wc) cs = true ->
  inner_marks_from wc K a b cs = if (a <? K) && (K <? b) then cs else [].
Proof.
  induction cs as [|x cs IH]; intro H; [now destruct ((a <? K) && (K <? b))|].
  cbn [forallb] in H. apply andb_prop in H as [H1 H2].
  rewrite inner_marks_from_cons. unfold inner_mark. cbn [fst snd]. rewrite H1.
  unfold zero_width in H1. replace (K + wc (fst x)) with K by lia.
  rewrite (IH H2). cbn [andb]. now destruct ((a <? K) && (K <? b)).
Qed.

Lemma run_keeps_inner_marks a b K ch :
  negb (starts_with_mark wc ch) || forallb (zero_width wc) (chunk_cells ch) = true ->
  subseq (inner_marks_from wc K a b (chunk_cells ch)) (zw_cells wc (run_ref wc a b K ch)).
Proof.
  intro H. destruct (forallb (zero_width wc) (chunk_cells ch)) eqn:Eall.
  - (* a run of marks only: kept as a whole iff a < K < b *)
    unfold run_ref. rewrite span_marks_all by assumption. cbn [fst snd lead_kept].
    cbn [slice_ref_from positions flat_map]. rewrite app_nil_r, inner_marks_all by assumption.
    destruct ((a <? K) && (K <? b)); [|constructor].
    rewrite zw_cells_all by assumption. apply subseq_refl.
  - rewrite orb_false_r in H. rewrite run_ref_ideal by (now destruct (starts_with_mark wc ch)).
    apply inner_marks_keep.
Qed.

Lemma runs_keep_inner_marks a b : forall f K, marks_lead_only_mark_runs wc f = true ->
  subseq (inner_marks_from wc K a b (cells f)) (zw_cells wc (slice_ref_runs_from wc K a b f)).
Proof.
  induction f as [|ch f IH]; intros K H; [constructor|].
  cbn [marks_lead_only_mark_runs forallb] in H. apply andb_prop in H as [H1 H2].
  cbn [slice_ref_runs_from]. rewrite cells_cons, inner_marks_from_app, zw_cells_app.
  apply subseq_app; [now apply run_keeps_inner_marks|now apply IH].
Qed.

(* every zero-width character whose column lies strictly inside (a, b) is in the
   slice, with its own formatting, in order - provided no run of positive width
   begins with a zero-width character (runs made of zero-width characters only
   are allowed) *)
Theorem slice_keeps_inner_marks f a b :
  fs_ok wc f -> marks_lead_only_mark_runs wc f = true -> 0 <= a -> 0 <= b ->
  exists r, fs_was wc f (IxSlice (Some a) (Some b)) = Ok r /\
            subseq (inner_marks wc a b (cells f)) (zw_cells wc (cells r)).
Proof.
  intros Hok Hl Ha Hb. destruct (slice_cells_exact f a b Hok Ha Hb) as [r [Hr Hc]].
  exists r. split; [assumption|]. rewrite Hc. now apply runs_keep_inner_marks.
Qed.

End SliceCells.
