(* C02: FullscreenWindow.render_to_terminal makes the screen show exactly the array,
   after any history of renders and resizes.  Layered on the C01 theorem
   (Proofs/RenderSgr.v): writing str(line) places cells(line) and resets. *)
From Curtsies Require Import Model.Base Gen.Tables Model.Render Spec.Sgr Spec.Term Spec.Show
     Model.Fullscreen Proofs.RenderSgr Proofs.TermLemmas.
From Coq Require Import Arith Lia.
Close Scope N_scope.
Local Open Scope nat_scope.

(* ---- small facts about lines ----------------------------------------------------- *)
Lemma cells_length f : length (cells f) = flen f.
Proof.
  unfold flen, text, cells. induction f as [|c f IH]; [reflexivity|].
  cbn [flat_map]. rewrite !app_length, IH. unfold chunk_cells. now rewrite map_length.
Qed.

Lemma cells_take_fs : forall f n, cells (take_fs n f) = firstn n (cells f).
Proof.
  induction f as [|c f IH]; intros n; cbn [take_fs cells flat_map]; [now rewrite firstn_nil|].
  fold (cells f). destruct (Nat.leb_spec (length (c_s c)) n) as [L|L].
  - cbn [cells flat_map]. fold (cells (take_fs (n - length (c_s c)) f)). rewrite IH.
    assert (Hl : length (chunk_cells c) = length (c_s c)) by (unfold chunk_cells; now rewrite map_length).
    rewrite firstn_app, Hl. rewrite (firstn_all2 (chunk_cells c)) by lia. reflexivity.
  - cbn [cells flat_map]. rewrite app_nil_r.
    assert (Hl : length (chunk_cells c) = length (c_s c)) by (unfold chunk_cells; now rewrite map_length).
    rewrite firstn_app, Hl. replace (n - length (c_s c)) with 0 by lia. rewrite firstn_O, app_nil_r.
    unfold chunk_cells. cbn [c_s c_a]. now rewrite firstn_map.
Qed.

Lemma forallb_firstn {X} (p : X -> bool) : forall n l, forallb p l = true -> forallb p (firstn n l) = true.
Proof.
  induction n as [|n IH]; intros [|x l] H; cbn; try reflexivity.
  cbn in H. apply andb_true_iff in H as [H1 H2]. now rewrite H1, IH.
Qed.

Lemma clean_take_fs : forall f n, clean f = true -> clean (take_fs n f) = true.
Proof.
  induction f as [|c f IH]; intros n H; cbn [take_fs]; [reflexivity|].
  cbn [clean forallb] in H. apply andb_true_iff in H as [Hc Hf].
  destruct (length (c_s c) <=? n).
  - cbn [clean forallb]. rewrite Hc. apply IH, Hf.
  - cbn [clean forallb c_s]. rewrite andb_true_r. apply forallb_firstn, Hc.
Qed.

Lemma clean_clip w f : clean f = true -> clean (clip w f) = true.
Proof. unfold clip. destruct (w <? flen f); [apply clean_take_fs | trivial]. Qed.

Lemma flen_clip w f : flen (clip w f) <= w.
Proof.
  unfold clip. destruct (Nat.ltb_spec w (flen f)) as [L|L]; [|exact L].
  rewrite <- cells_length, cells_take_fs, firstn_length. lia.
Qed.

Lemma nth_clip w f c : c < w -> nth c (cells (clip w f)) blank = nth c (cells f) blank.
Proof.
  intros Hc. unfold clip. destruct (w <? flen f); [|reflexivity].
  rewrite cells_take_fs. rewrite <- (firstn_skipn w (cells f)) at 2.
  destruct (Nat.lt_ge_cases c (length (firstn w (cells f)))) as [L|L].
  - now rewrite app_nth1.
  - rewrite nth_overflow by exact L. rewrite firstn_length in L.
    destruct (Nat.min_spec w (length (cells f))) as [[_ E]|[M E]]; rewrite E in L; [lia|].
    rewrite firstn_skipn. symmetry. apply nth_overflow. lia.
Qed.

(* same terminal string => same display (C19's core, from C01) *)
Lemma row_eqb_cells a b : clean a = true -> clean b = true -> row_eqb a b = true -> cells a = cells b.
Proof.
  intros Ha Hb E. unfold row_eqb, str_eqb in E.
  assert (R : render a = render b).
  { revert E. generalize (render a) (render b). intros l1. induction l1 as [|x l1 IH]; intros [|y l2] E; cbn in E; try discriminate; [reflexivity|].
    apply andb_true_iff in E as [E1 E2]. apply N.eqb_eq in E1. subst y. f_equal. now apply IH. }
  pose proof (render_displays a Ha) as Da. pose proof (render_displays b Hb) as Db.
  rewrite R in Da. rewrite Da in Db. now inversion Db.
Qed.

(* ---- rows of the screen --------------------------------------------------------------- *)
Definition row_shows (t : term) (r : nat) (l : list cell) : Prop :=
  forall c, c < t_w t -> scr t r c = nth c l blank.

(* what a cache entry claims about the screen *)
Definition entry_sound (old : cache) (t : term) (r : nat) : Prop :=
  match lookup old r with
  | Some (Some l) => clean l = true /\ row_shows t r (cells l)
  | Some None => row_shows t r []
  | None => old <> [] -> row_shows t r []
  end.

Lemma entry_sound_same old t t' r :
  t_w t' = t_w t -> (forall c, scr t' r c = scr t r c) -> entry_sound old t r -> entry_sound old t' r.
Proof.
  intros Hw Hs. unfold entry_sound, row_shows. rewrite Hw.
  destruct (lookup old r) as [[l|]|]; [intros [H1 H2]; split; [exact H1|] | |];
    intros; rewrite Hs; auto.
Qed.

(* ---- one content row --------------------------------------------------------------------- *)
Lemma write_row t row line :
  t_sgr t = sgr_default -> clean line = true -> flen line <= t_w t -> row < t_h t -> 1 <= t_w t ->
  exists t', execs t ([Cup row 0; Str (render line)] ++ (if flen line <? t_w t then [El0] else [])) = Some t'
    /\ same_frame t t' /\ t_sgr t' = sgr_default /\ t_visible t' = t_visible t
    /\ row_shows t' row (cells line)
    /\ (forall r c, r <> row -> scr t' r c = scr t r c).
Proof.
  intros Hg Hc Hlen Hrow Hw.
  destruct (exec_cup t row 0) as (t1 & E1 & F1 & G1 & V1 & S1 & R1 & C1 & P1).
  rewrite Nat.min_l in R1 by lia. rewrite Nat.min_l in C1 by lia.
  assert (ES : exec t1 (Str (render line)) = Some (with_sgr sgr_default (puts (cells line) t1))).
  { cbn [exec]. rewrite G1, Hg. pose proof (render_displays line Hc) as D. unfold display in D. now rewrite D. }
  destruct F1 as (F1h & F1w & F1a & F1b).
  assert (Hfit : t_col t1 + length (cells line) <= t_w t1) by (rewrite C1, F1w, cells_length; lia).
  assert (Hcol : t_col t1 < t_w t1) by (rewrite C1, F1w; lia).
  destruct (puts_fits (cells line) t1 P1 Hfit Hcol) as (F2 & G2 & V2 & R2 & S2 & C2). cbv zeta in *.
  set (t2 := with_sgr sgr_default (puts (cells line) t1)) in *.
  destruct F2 as (F2h & F2w & F2a & F2b).
  assert (T2 : t_h t2 = t_h t /\ t_w t2 = t_w t /\ t_in_alt t2 = t_in_alt t /\
               b_base (abuf t2) = b_base (abuf t) /\ t_visible t2 = t_visible t).
  { unfold t2. rewrite abuf_with_sgr. cbn [with_sgr t_h t_w t_in_alt t_visible]. repeat split; congruence. }
  destruct T2 as (T2h & T2w & T2a & T2b & T2v).
  assert (S2' : forall r c, scr t2 r c =
            if (r =? row) && (c <? flen line) then nth c (cells line) blank else scr t r c).
  { intros r c. unfold t2. rewrite scr_with_sgr, S2, R1, C1, S1, cells_length. cbn [Nat.leb andb Nat.add].
    rewrite andb_true_r. now rewrite Nat.sub_0_r. }
  cbn [execs app]. rewrite E1. cbn [execs]. rewrite ES.
  destruct (Nat.ltb_spec (flen line) (t_w t)) as [L|L].
  - (* shorter than the line: erase the rest *)
    destruct (exec_el0 t2) as (t3 & E3 & F3 & G3 & V3 & R3 & C3 & P3 & S3).
    cbn [execs]. rewrite E3. exists t3. destruct F3 as (F3h & F3w & F3a & F3b).
    assert (Hc2 : t_col t2 = flen line).
    { unfold t2. cbn [with_sgr t_col]. destruct (cells line) as [|x xs] eqn:EC.
      - cbn [puts]. rewrite C1. rewrite <- cells_length, EC. reflexivity.
      - assert (Hne : x :: xs <> []) by congruence. specialize (C2 Hne).
        rewrite C1, F1w in C2. rewrite <- EC, cells_length in C2. cbn [Nat.add] in C2.
        replace (flen line =? t_w t) with false in C2 by (symmetry; apply Nat.eqb_neq; lia).
        destruct C2 as [_ C2]. rewrite <- EC. exact C2. }
    assert (Hr2 : t_row t2 = row) by (unfold t2; cbn [with_sgr t_row]; congruence).
    assert (Hg2 : t_sgr t2 = sgr_default) by reflexivity.
    repeat split; try congruence.
    + intros c Hcw. rewrite S3, Hr2, Hc2, Hg2, erased_default, Nat.eqb_refl. cbn [andb].
      destruct (Nat.leb_spec (flen line) c) as [L2|L2].
      * symmetry. apply nth_overflow. rewrite cells_length. exact L2.
      * rewrite S2', Nat.eqb_refl. replace (c <? flen line) with true by (symmetry; apply Nat.ltb_lt; lia). reflexivity.
    + intros r c Hr. rewrite S3, Hr2. replace (r =? row) with false by (symmetry; apply Nat.eqb_neq; lia).
      cbn [andb]. rewrite S2'. replace (r =? row) with false by (symmetry; apply Nat.eqb_neq; lia). reflexivity.
  - (* fills the line exactly *)
    cbn [execs]. exists t2. assert (flen line = t_w t) by lia.
    repeat split; try congruence.
    + intros c Hcw. rewrite S2', Nat.eqb_refl. cbn [andb]. rewrite T2w in Hcw.
      replace (c <? flen line) with true by (symmetry; apply Nat.ltb_lt; lia). reflexivity.
    + intros r c Hr. rewrite S2'. replace (r =? row) with false by (symmetry; apply Nat.eqb_neq; lia). reflexivity.
Qed.

(* ---- the loop over rows with content ------------------------------------------------------- *)
Lemma content_rows_ok : forall lines row old t,
  t_sgr t = sgr_default -> 1 <= t_w t -> row + length lines <= t_h t ->
  Forall (fun l => clean l = true) lines ->
  (forall r, row <= r -> r < t_h t -> entry_sound old t r) ->
  exists t', execs t (fst (content_rows (t_w t) old row lines)) = Some t'
    /\ same_frame t t' /\ t_sgr t' = sgr_default /\ t_visible t' = t_visible t
    /\ (forall i, i < length lines -> row_shows t' (row + i) (cells (clip (t_w t) (nth i lines []))))
    /\ (forall r c, (r < row \/ row + length lines <= r) -> scr t' r c = scr t r c)
    /\ (forall r, lookup (snd (content_rows (t_w t) old row lines)) r =
                  if (row <=? r) && (r <? row + length lines)
                  then Some (Some (clip (t_w t) (nth (r - row) lines []))) else None).
Proof.
  induction lines as [|line0 rest IH]; intros row old t Hg Hw Hfit Hcl Hsound.
  - cbn [content_rows fst snd execs length]. exists t. repeat split; try reflexivity; try assumption.
    + intros i Hi; lia.
    + intros r. destruct ((row <=? r) && (r <? row + 0)) eqn:E; [|reflexivity].
      apply andb_true_iff in E as [E1 E2]. apply Nat.leb_le in E1. apply Nat.ltb_lt in E2. lia.
  - cbn [content_rows length] in *. inversion Hcl as [|? ? Hc0 Hcr]; subst.
    set (line := clip (t_w t) line0).
    destruct (content_rows (t_w t) old (S row) rest) as [ks cur] eqn:ECR.
    cbn [fst snd].
    assert (Hcline : clean line = true) by (apply clean_clip, Hc0).
    assert (Hlline : flen line <= t_w t) by apply flen_clip.
    assert (Hrow : row < t_h t) by lia.
    set (same := match lookup old row with Some (Some l) => row_eqb line l | _ => false end).
    (* the state after this row's own commands *)
    assert (Hmine : exists t1,
      execs t (if same then [] else [Cup row 0; Str (render line)] ++ (if flen line <? t_w t then [El0] else [])) = Some t1
      /\ same_frame t t1 /\ t_sgr t1 = sgr_default /\ t_visible t1 = t_visible t /\ row_shows t1 row (cells line)
      /\ (forall r c, r <> row -> scr t1 r c = scr t r c)).
    { destruct same eqn:ES.
      - exists t. cbn [execs]. repeat split; try reflexivity; try assumption.
        unfold same in ES. specialize (Hsound row (Nat.le_refl _) Hrow). unfold entry_sound in Hsound.
        destruct (lookup old row) as [[l|]|]; try discriminate.
        destruct Hsound as [Hl Hs]. rewrite (row_eqb_cells line l Hcline Hl ES). exact Hs.
      - apply write_row; assumption. }
    destruct Hmine as (t1 & E1 & F1 & G1 & V1 & R1 & O1).
    destruct F1 as (F1h & F1w & F1a & F1b).
    assert (Hsound1 : forall r, S row <= r -> r < t_h t1 -> entry_sound old t1 r).
    { intros r Hr1 Hr2. apply (entry_sound_same old t t1 r F1w).
      - intros c. apply O1. lia.
      - apply Hsound; [lia | congruence]. }
    assert (Hfit1 : S row + length rest <= t_h t1) by (rewrite F1h; lia).
    assert (Hw1 : 1 <= t_w t1) by (rewrite F1w; exact Hw).
    destruct (IH (S row) old t1 G1 Hw1 Hfit1 Hcr Hsound1) as (t2 & E2 & F2 & G2 & V2 & R2 & O2 & K2).
    rewrite F1w, ECR in E2, K2. cbn [fst snd] in E2, K2. rewrite F1w in R2.
    exists t2. rewrite execs_app, E1, E2.
    destruct F2 as (F2h & F2w & F2a & F2b).
    repeat split; try congruence.
    + intros i Hi. destruct i as [|i].
      * rewrite Nat.add_0_r. cbn [nth]. fold line. intros c Hc.
        rewrite O2 by (left; lia). apply R1. congruence.
      * replace (row + S i) with (S row + i) by lia. cbn [nth]. apply R2. lia.
    + intros r c Hr. rewrite O2 by lia. apply O1. lia.
    + intros r. cbn [lookup]. destruct (Nat.eqb_spec row r) as [->|Hne].
      * rewrite Nat.leb_refl. replace (r <? r + S (length rest)) with true by (symmetry; apply Nat.ltb_lt; lia).
        cbn [andb]. rewrite Nat.sub_diag. reflexivity.
      * rewrite K2.
        destruct (Nat.leb_spec (S row) r), (Nat.leb_spec row r); try lia; cbn [andb]; try reflexivity.
        replace (r <? row + S (length rest)) with (r <? S row + length rest) by (f_equal; lia).
        destruct (r <? S row + length rest); [|reflexivity].
        replace (r - row) with (S (r - S row)) by lia. reflexivity.
Qed.

(* ---- the loop over rows without content ---------------------------------------------------- *)
Lemma clear_row t row :
  t_sgr t = sgr_default -> row < t_h t -> 1 <= t_w t ->
  exists t', execs t [Cup row 0; El0; El1] = Some t' /\ same_frame t t' /\ t_sgr t' = sgr_default
    /\ t_visible t' = t_visible t /\ row_shows t' row [] /\ (forall r c, r <> row -> scr t' r c = scr t r c).
Proof.
  intros Hg Hrow Hw.
  destruct (exec_cup t row 0) as (t1 & E1 & F1 & G1 & V1 & S1 & R1 & C1 & P1).
  rewrite Nat.min_l in R1 by lia. rewrite Nat.min_l in C1 by lia.
  destruct (exec_el0 t1) as (t2 & E2 & F2 & G2 & V2 & R2 & C2 & P2 & S2).
  destruct (exec_el1 t2) as (t3 & E3 & F3 & G3 & V3 & R3 & C3 & P3 & S3).
  cbn [execs]. rewrite E1, E2, E3. exists t3.
  destruct F1 as (? & ? & ? & ?), F2 as (? & ? & ? & ?), F3 as (? & ? & ? & ?).
  repeat split; try congruence.
  - intros c Hc. rewrite S3, R2, R1, C2, C1, G2, G1, Hg, erased_default, Nat.eqb_refl. cbn [andb].
    destruct (c <=? 0); [now destruct c|].
    rewrite S2, R1, C1, G1, Hg, erased_default, Nat.eqb_refl. cbn [andb Nat.leb]. now destruct c.
  - intros r c Hr. rewrite S3, R2, R1. replace (r =? row) with false by (symmetry; apply Nat.eqb_neq; lia).
    cbn [andb]. rewrite S2, R1. replace (r =? row) with false by (symmetry; apply Nat.eqb_neq; lia).
    cbn [andb]. apply S1.
Qed.

Lemma blank_rows_ok : forall rows old t,
  t_sgr t = sgr_default -> 1 <= t_w t -> (forall r, In r rows -> r < t_h t) -> NoDup rows ->
  (forall r, In r rows -> entry_sound old t r) ->
  exists t', execs t (fst (blank_rows old rows)) = Some t'
    /\ same_frame t t' /\ t_sgr t' = sgr_default /\ t_visible t' = t_visible t
    /\ (forall r, In r rows -> row_shows t' r [])
    /\ (forall r c, ~ In r rows -> scr t' r c = scr t r c)
    /\ (forall r, lookup (snd (blank_rows old rows)) r = None \/ lookup (snd (blank_rows old rows)) r = Some None).
Proof.
  induction rows as [|row rest IH]; intros old t Hg Hw Hlt Hnd Hsound.
  - cbn [blank_rows fst snd execs]. exists t. repeat split; try reflexivity; try assumption.
    + intros r [].
    + intros r; now left.
  - cbn [blank_rows].
    destruct (blank_rows old rest) as [ks cur] eqn:EB.
    set (skip := match old with [] => false | _ => match lookup old row with None => true | Some _ => false end end).
    assert (Hrow : row < t_h t) by (apply Hlt; now left).
    assert (Hmine : exists t1, execs t (if skip then [] else [Cup row 0; El0; El1]) = Some t1
      /\ same_frame t t1 /\ t_sgr t1 = sgr_default /\ t_visible t1 = t_visible t /\ row_shows t1 row []
      /\ (forall r c, r <> row -> scr t1 r c = scr t r c)).
    { destruct skip eqn:ES.
      - exists t. cbn [execs]. repeat split; try reflexivity; try assumption.
        specialize (Hsound row (or_introl eq_refl)). unfold entry_sound in Hsound. unfold skip in ES.
        destruct old as [|e old']; [discriminate|].
        destruct (lookup (e :: old') row); [discriminate|]. apply Hsound. congruence.
      - apply clear_row; assumption. }
    destruct Hmine as (t1 & E1 & F1 & G1 & V1 & R1 & O1).
    destruct F1 as (F1h & F1w & F1a & F1b).
    assert (Hw1 : 1 <= t_w t1) by (rewrite F1w; exact Hw).
    assert (Hlt1 : forall r, In r rest -> r < t_h t1) by (intros r Hr; rewrite F1h; apply Hlt; now right).
    assert (Hsound1 : forall r, In r rest -> entry_sound old t1 r).
    { intros r Hr. destruct (Nat.eq_dec r row) as [->|Hne].
      - exfalso. inversion Hnd; subst. contradiction.
      - apply (entry_sound_same old t t1 r F1w); [intros c; apply O1, Hne | apply Hsound; now right]. }
    assert (Hnd1 : NoDup rest) by (inversion Hnd; assumption).
    destruct (IH old t1 G1 Hw1 Hlt1 Hnd1 Hsound1) as (t2 & E2 & F2 & G2 & V2 & R2 & O2 & K2).
    rewrite EB in E2, K2. cbn [fst snd] in E2, K2.
    destruct F2 as (F2h & F2w & F2a & F2b).
    exists t2.
    assert (EX : execs t (fst (if skip then (ks, cur) else ([Cup row 0; El0; El1] ++ ks, (row, None) :: cur))) = Some t2).
    { destruct skip; cbn [fst].
      - cbn [execs] in E1. inversion E1; subst t1. exact E2.
      - rewrite execs_app, E1. exact E2. }
    rewrite EX. repeat split; try congruence.
    + intros r [->|Hr].
      * destruct (in_dec Nat.eq_dec r rest) as [Hi|Hn]; [apply R2, Hi|].
        intros c Hc. rewrite O2 by exact Hn. apply R1. congruence.
      * apply R2, Hr.
    + intros r c Hn. rewrite O2 by (intro; apply Hn; now right). apply O1. intros ->. apply Hn. now left.
    + intros r. destruct skip; cbn [snd]; [apply K2|]. cbn [lookup].
      destruct (row =? r); [now right | apply K2].
Qed.

(* ---- one render --------------------------------------------------------------------------- *)
Lemma lookup_app : forall a b r,
  lookup (a ++ b) r = match lookup a r with Some v => Some v | None => lookup b r end.
Proof.
  induction a as [|[k v] a IH]; intros b r; cbn [lookup app]; [reflexivity|].
  destruct (k =? r); [reflexivity | apply IH].
Qed.

Lemma nth_firstn_lt {X} (d : X) : forall n l i, i < n -> nth i (firstn n l) d = nth i l d.
Proof.
  induction n as [|n IH]; intros l i Hi; [lia|]. destruct l as [|x l]; [now destruct i|].
  destruct i as [|i]; [reflexivity|]. cbn [firstn nth]. apply IH. lia.
Qed.

Lemma Forall_firstn' {X} (P : X -> Prop) : forall n l, Forall P l -> Forall P (firstn n l).
Proof.
  induction n as [|n IH]; intros l H; [constructor|]. destruct H as [|x l Hx Hl]; [constructor|].
  cbn [firstn]. constructor; [exact Hx | apply IH, Hl].
Qed.

(* what the window's cache claims, when it is in force (same size as last rendered) *)
Definition cache_sound (ws : fswin) (t : term) : Prop :=
  fw_last ws = Some (t_h t, t_w t) -> forall r, r < t_h t -> entry_sound (fw_cache ws) t r.

Definition Inv (ws : fswin) (t : term) : Prop :=
  t_sgr t = sgr_default /\ 1 <= t_h t /\ 1 <= t_w t /\ cache_sound ws t.

Theorem fs_render_correct ws t a cur :
  Inv ws t -> Forall (fun l => clean l = true) a -> fst cur < t_h t -> snd cur < t_w t ->
  exists t', execs t (fst (fs_render ws (t_h t) (t_w t) a cur)) = Some t'
    /\ Inv (snd (fs_render ws (t_h t) (t_w t) a cur)) t'
    /\ same_frame t t'
    /\ shows t' a
    /\ t_row t' = fst cur /\ t_col t' = snd cur
    /\ scrolled t' = scrolled t
    /\ t_visible t' = (if fw_hide ws then t_visible t else true).
Proof.
  intros (Hg & Hh & Hw & Hcs) Hclean Hcr Hcc. unfold fs_render.
  set (changed := match fw_last ws with Some (lh, lw) => negb ((lh =? t_h t) && (lw =? t_w t)) | None => true end).
  set (old := if changed then [] else fw_cache ws).
  assert (Hold : forall r, r < t_h t -> entry_sound old t r).
  { intros r Hr. unfold old. destruct changed eqn:EC.
    - unfold entry_sound. cbn [lookup]. congruence.
    - apply Hcs; [|exact Hr]. unfold changed in EC. destruct (fw_last ws) as [[lh lw]|]; [|discriminate].
      apply negb_false_iff, andb_true_iff in EC as [E1 E2].
      apply Nat.eqb_eq in E1, E2. now subst. }
  (* hide the cursor *)
  set (t0 := if fw_hide ws then t else with_visible false t).
  assert (E0 : execs t (if fw_hide ws then [] else [Hide]) = Some t0) by (unfold t0; destruct (fw_hide ws); reflexivity).
  assert (T0 : t_h t0 = t_h t /\ t_w t0 = t_w t /\ t_in_alt t0 = t_in_alt t /\ b_base (abuf t0) = b_base (abuf t)
               /\ t_sgr t0 = t_sgr t /\ (forall r c, scr t0 r c = scr t r c)).
  { unfold t0; destruct (fw_hide ws); repeat split. }
  destruct T0 as (T0h & T0w & T0a & T0b & T0g & T0s).
  assert (Hold0 : forall r, r < t_h t0 -> entry_sound old t0 r).
  { intros r Hr. apply (entry_sound_same old t t0 r T0w); [intros c; apply T0s | apply Hold; congruence]. }
  (* rows with content *)
  assert (Hlen : length (firstn (t_h t) a) <= t_h t) by (rewrite firstn_length; lia).
  destruct (content_rows_ok (firstn (t_h t) a) 0 old t0) as (t1 & E1 & F1 & G1 & V1 & R1 & O1 & K1).
  { congruence. } { congruence. } { cbn [Nat.add]. congruence. }
  { apply Forall_firstn', Hclean. } { intros r _ Hr. apply Hold0, Hr. }
  rewrite T0w in E1, R1, K1. cbn [Nat.add] in R1, O1, K1.
  destruct (content_rows (t_w t) old 0 (firstn (t_h t) a)) as [k1 c1] eqn:EC1. cbn [fst snd] in E1, K1.
  destruct F1 as (F1h & F1w & F1a & F1b).
  (* rows without content *)
  set (rows := seq (length a) (t_h t - length a)).
  destruct (blank_rows_ok rows old t1) as (t2 & E2 & F2 & G2 & V2 & R2 & O2 & K2).
  { exact G1. } { congruence. }
  { intros r Hr. apply in_seq in Hr. rewrite F1h, T0h. lia. }
  { apply seq_NoDup. }
  { intros r Hr. apply in_seq in Hr.
    apply (entry_sound_same old t0 t1 r F1w).
    - intros c. apply O1. right. rewrite firstn_length. lia.
    - apply Hold0. rewrite T0h. lia. }
  destruct (blank_rows old rows) as [k2 c2] eqn:EC2. cbn [fst snd] in E2, K2.
  destruct F2 as (F2h & F2w & F2a & F2b).
  (* place the cursor, show it again *)
  destruct (exec_cup t2 (fst cur) (snd cur)) as (t3 & E3 & F3 & G3 & V3 & S3 & R3 & C3 & P3).
  destruct F3 as (F3h & F3w & F3a & F3b).
  rewrite Nat.min_l in R3 by (rewrite F2h, F1h, T0h; lia). rewrite Nat.min_l in C3 by (rewrite F2w, F1w, T0w; lia).
  set (t4 := if fw_hide ws then t3 else with_visible true t3).
  assert (E4 : execs t3 (if fw_hide ws then [] else [Show]) = Some t4) by (unfold t4; destruct (fw_hide ws); reflexivity).
  assert (T4 : t_h t4 = t_h t3 /\ t_w t4 = t_w t3 /\ t_in_alt t4 = t_in_alt t3 /\ b_base (abuf t4) = b_base (abuf t3)
               /\ t_sgr t4 = t_sgr t3 /\ t_row t4 = t_row t3 /\ t_col t4 = t_col t3 /\ (forall r c, scr t4 r c = scr t3 r c)).
  { unfold t4; destruct (fw_hide ws); repeat split. }
  destruct T4 as (T4h & T4w & T4a & T4b & T4g & T4r & T4c & T4s).
  exists t4. cbn [fst snd].
  assert (EX : execs t ((if fw_hide ws then [] else [Hide]) ++ k1 ++ k2 ++ [Cup (fst cur) (snd cur)] ++
                        (if fw_hide ws then [] else [Show])) = Some t4).
  { rewrite execs_app, E0, execs_app, E1, execs_app, E2. cbn [app execs]. rewrite E3. exact E4. }
  (* the final screen, row by row *)
  assert (Hscr : forall r c, scr t4 r c = scr t2 r c) by (intros; rewrite T4s; apply S3).
  assert (Hrow_content : forall r, r < length (firstn (t_h t) a) ->
            row_shows t4 r (cells (clip (t_w t) (nth r a [])))).
  { intros r Hr c Hc. rewrite Hscr. rewrite O2.
    - assert (Hrh : r < t_h t) by lia.
      rewrite <- (nth_firstn_lt ([] : fmtstr) (t_h t) a r Hrh). apply R1; [exact Hr|]. congruence.
    - unfold rows. rewrite in_seq. rewrite firstn_length in Hr. lia. }
  assert (Hrow_blank : forall r, length (firstn (t_h t) a) <= r -> r < t_h t -> row_shows t4 r []).
  { intros r Hr1 Hr2 c Hc. rewrite Hscr. apply R2.
    - unfold rows. rewrite in_seq. rewrite firstn_length in Hr1. lia.
    - congruence. }
  split; [exact EX|]. split; [|split; [|split; [|split; [|split; [|split]]]]].
  - (* the invariant for the next call *)
    unfold Inv. cbn [fw_cache fw_last fw_hide].
    repeat split; try congruence.
    intros _ r Hr. unfold entry_sound. cbn [fw_cache fw_last fw_hide]. rewrite lookup_app, K1. cbn [Nat.leb andb Nat.sub].
    replace (t_h t4) with (t_h t) in Hr by congruence.
    destruct (Nat.ltb_spec r (length (firstn (t_h t) a))) as [L|L].
    + rewrite Nat.sub_0_r. split.
      * apply clean_clip. rewrite Forall_forall in Hclean.
        rewrite firstn_length in L. apply Hclean. rewrite (nth_firstn_lt ([] : fmtstr) (t_h t) a r) by lia. apply nth_In. lia.
      * rewrite (nth_firstn_lt ([] : fmtstr) (t_h t) a r) by lia. apply Hrow_content, L.
    + destruct (K2 r) as [-> | ->]; [intros _|]; apply Hrow_blank; assumption.
  - repeat split; congruence.
  - intros r c Hr Hc. unfold show_cell.
    replace (t_h t4) with (t_h t) in Hr by congruence. replace (t_w t4) with (t_w t) in Hc by congruence.
    destruct (Nat.lt_ge_cases r (length (firstn (t_h t) a))) as [L|L].
    + rewrite (Hrow_content r L c) by congruence. apply nth_clip, Hc.
    + rewrite (Hrow_blank r L Hr c) by congruence.
      rewrite (nth_overflow a) by (rewrite firstn_length in L; lia). cbn [cells flat_map]. now destruct c.
  - congruence.
  - congruence.
  - unfold scrolled. congruence.
  - unfold t4, t0 in *. destruct (fw_hide ws); cbn [with_visible t_visible]; [congruence | reflexivity].
Qed.

(* ---- histories of renders and resizes ------------------------------------------------------- *)
Inductive hop :=
| HRender (a : list fmtstr) (cur : nat * nat)
| HResize (t' : term).   (* the terminal as the resize left it: any size, content, cursor, pending flag *)

(* what the property quantifies over: clean rows, cursor on the screen, and every
   resize goes to a size different from the one last rendered at; between renders
   the graphic state is at its default (the window never leaves it otherwise) *)
Fixpoint valid_hist (last : option (nat * nat)) (h w : nat) (alt : bool) (ops : list hop) : Prop :=
  match ops with
  | [] => True
  | HRender a cur :: rest =>
      Forall (fun l => clean l = true) a /\ fst cur < h /\ snd cur < w /\ valid_hist (Some (h, w)) h w alt rest
  | HResize t' :: rest =>
      t_sgr t' = sgr_default /\ 1 <= t_h t' /\ 1 <= t_w t' /\ t_in_alt t' = alt /\
      last <> Some (t_h t', t_w t') /\ valid_hist last (t_h t') (t_w t') alt rest
  end.

(* after EVERY render of the history: the screen shows the array, the cursor is
   where it was asked to be, nothing scrolled, still on the same buffer *)
Fixpoint all_renders_ok (ws : fswin) (t : term) (ops : list hop) : Prop :=
  match ops with
  | [] => True
  | HResize t' :: rest => all_renders_ok ws t' rest
  | HRender a cur :: rest =>
      exists t', execs t (fst (fs_render ws (t_h t) (t_w t) a cur)) = Some t'
        /\ shows t' a /\ t_row t' = fst cur /\ t_col t' = snd cur
        /\ scrolled t' = scrolled t /\ t_in_alt t' = t_in_alt t
        /\ t_h t' = t_h t /\ t_w t' = t_w t
        /\ all_renders_ok (snd (fs_render ws (t_h t) (t_w t) a cur)) t' rest
  end.

Lemma fs_render_last ws h w a cur : fw_last (snd (fs_render ws h w a cur)) = Some (h, w).
Proof.
  unfold fs_render. destruct (content_rows _ _ _ _), (blank_rows _ _). reflexivity.
Qed.

Theorem fs_histories : forall ops ws t,
  Inv ws t -> valid_hist (fw_last ws) (t_h t) (t_w t) (t_in_alt t) ops -> all_renders_ok ws t ops.
Proof.
  induction ops as [|[a cur|t'] rest IH]; intros ws t HI HV; cbn [all_renders_ok valid_hist] in *; [exact I| |].
  - destruct HV as (Hcl & Hr & Hc & HV).
    destruct (fs_render_correct ws t a cur HI Hcl Hr Hc) as (t1 & E & HI1 & (Fh & Fw & Fa & Fb) & Sh & R & C & Sc & _).
    exists t1. repeat split; try assumption.
    apply IH; [exact HI1|]. rewrite fs_render_last, Fh, Fw, Fa. exact HV.
  - destruct HV as (Hg & Hh & Hw & Ha & Hne & HV).
    apply IH; [|rewrite Ha; exact HV].
    repeat split; try assumption. intros E. congruence.
Qed.

(* from entering the context on any terminal whose graphic state is at its default *)
Corollary fs_histories_from_enter hide t ops :
  t_sgr t = sgr_default -> 1 <= t_h t -> 1 <= t_w t ->
  exists t0, execs t (fs_enter (fs_init hide)) = Some t0 /\ t_in_alt t0 = true /\
    (valid_hist None (t_h t0) (t_w t0) true ops -> all_renders_ok (fs_init hide) t0 ops).
Proof.
  intros Hg Hh Hw. unfold fs_enter, fs_init. cbn [fw_hide app execs exec].
  destruct (t_in_alt t) eqn:EA.
  - destruct hide; cbn [execs exec]; eexists; (split; [reflexivity|]); (split; [exact EA|]);
      intros HV; apply fs_histories; cbn [fw_last fw_cache with_visible t_sgr t_h t_w t_in_alt]; try rewrite EA; try exact HV;
      (repeat split; try assumption; intros E; discriminate).
  - destruct hide; cbn [execs exec]; eexists; (split; [reflexivity|]); (split; [reflexivity|]);
      intros HV; apply fs_histories; cbn [fw_last fw_cache with_visible t_sgr t_h t_w t_in_alt]; try exact HV;
      (repeat split; try assumption; intros E; discriminate).
Qed.

(* non-vacuity: a concrete history (render taller and wider than the screen, resize
   with junk, render rows differing only in formatting) meets the hypotheses *)
Example fs_histories_nonvacuous :
  let t := mkTerm 2 3 (mkBuf (fun _ _ => blank) 0) (mkBuf (fun _ _ => (120%N, sgr_default)) 0) true
                  1 2 true sgr_default (0, 0, sgr_default) (0, 0, sgr_default) false in
  let junk := mkTerm 3 2 (mkBuf (fun _ _ => blank) 0) (mkBuf (fun r c => (N.of_nat (65 + r + c), Sg 2 3 1 0 0 0 0 1)) 0) true
                  2 1 true sgr_default (0, 0, sgr_default) (0, 0, sgr_default) false in
  let a1 := [[C [97; 98; 99; 100]%N (A 2 0 1 0 0 0 0 0)]; []; [C [101]%N (A 0 0 0 0 0 0 0 0)]] in
  let a2 := [[C [97; 98]%N (A 3 0 1 0 0 0 0 0)]] in
  Inv (fs_init true) t /\
  valid_hist None 2 3 true [HRender a1 (1, 2); HResize junk; HRender a2 (2, 1); HRender a2 (0, 0)].
Proof.
  cbv zeta. split.
  - repeat split; cbn; try lia. intros E; discriminate.
  - cbn [valid_hist t_sgr t_h t_w t_in_alt fst snd]. repeat split; try lia; try (repeat constructor); try discriminate.
Qed.
