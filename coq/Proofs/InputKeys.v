(* C08 with the REAL decoder: the hypotheses fk_lossless / fk_progress of
   Proofs/InputQ.v are discharged for find_key_real enc mode (the model of
   events.get_key driven by the find_key loop of Input._send, Model/InputKeys.v)
   for every encoding and naming mode, and the theorems of Proofs/InputQ.v are
   instantiated with it. *)
From Coq Require Import Lia ZifyBool ZifyNat ZifyN Permutation.
From Curtsies Require Import Model.Base Gen.Tables Model.Utf8 Model.Keys Model.KeyMap Spec.KeySpec Proofs.Keys
  Model.InputQ Model.InputKeys Spec.QueueSpec Proofs.InputQ.
Close Scope N_scope.
Local Open Scope Z_scope.

(* ---- fk_go against Keys.find_key_go (the function C03 is proved about) -------- *)
Definition fk_erase (r : fk) : res (option (str * list N * list N)) :=
  match r with
  | FkNone => Ok None
  | FkKey k used rest => Ok (Some (k, used, rest))
  | FkRaise e _ _ => Raise e
  end.

Lemma fk_go_find_key_go : forall enc mode buf cur,
  fk_erase (fk_go enc mode cur buf) = find_key_go enc mode cur buf.
Proof.
  induction buf as [|b buf IH]; intro cur; cbn [fk_go find_key_go].
  - destruct cur; reflexivity.
  - destruct (get_key enc mode (is_nil buf) (cur ++ [b])); [reflexivity|apply IH|reflexivity].
Qed.

Lemma find_key_real_find_key : forall enc mode buf,
  fk_erase (find_key_real enc mode buf) = find_key enc mode buf.
Proof. intros. apply fk_go_find_key_go. Qed.

(* what is popped and what stays is the buffer, also when it raises; a key pops a byte *)
Lemma fk_go_split : forall enc mode buf cur,
  match fk_go enc mode cur buf with
  | FkNone => cur = [] /\ buf = []
  | FkKey k used rest => used ++ rest = cur ++ buf /\ (length cur < length used)%nat /\
                         name_ok enc mode used k = true
  | FkRaise e used rest => used ++ rest = cur ++ buf /\ used <> []
  end.
Proof.
  induction buf as [|b buf IH]; intro cur; cbn [fk_go].
  - destruct cur as [|c cur]; [auto|]. split; [reflexivity|discriminate].
  - destruct (get_key enc mode (is_nil buf) (cur ++ [b])) as [n| |e] eqn:G.
    + rewrite <- app_assoc. cbn [app]. split; [reflexivity|]. split.
      * rewrite app_length. cbn [length]. lia.
      * now apply get_key_named in G.
    + specialize (IH (cur ++ [b])).
      destruct (fk_go enc mode (cur ++ [b]) buf) as [|k used rest|e used rest].
      * destruct IH as [IH _]. destruct cur; discriminate.
      * destruct IH as (H1 & H2 & H3). rewrite <- app_assoc in H1. cbn [app] in H1.
        split; [exact H1|]. split; [|exact H3]. rewrite app_length in H2. cbn [length] in H2. lia.
      * destruct IH as (H1 & H2). rewrite <- app_assoc in H1. cbn [app] in H1. auto.
    + rewrite <- app_assoc. cbn [app]. split; [reflexivity|]. destruct cur; discriminate.
Qed.

Theorem find_key_real_lossless : forall enc mode, fk_lossless (find_key_real enc mode).
Proof.
  intros enc mode buf. unfold find_key_real. pose proof (fk_go_split enc mode buf []) as H.
  destruct (fk_go enc mode [] buf); [exact I|apply H|apply H].
Qed.

Theorem find_key_real_progress : forall enc mode, fk_progress (find_key_real enc mode).
Proof.
  intros enc mode buf. unfold find_key_real. pose proof (fk_go_split enc mode buf []) as H.
  destruct (fk_go enc mode [] buf) as [|k used rest|e used rest]; [apply H| |exact I].
  destruct H as (_ & H & _). intro E. subst used. cbn in H. lia.
Qed.

(* every key the real decoder returns is the name (C03: name_ok) of exactly the bytes it popped *)
Theorem find_key_real_named : forall enc mode buf k used rest,
  find_key_real enc mode buf = FkKey k used rest -> name_ok enc mode used k = true.
Proof.
  intros enc mode buf k used rest E. unfold find_key_real in E.
  pose proof (fk_go_split enc mode buf []) as H. rewrite E in H. apply H.
Qed.

(* ---- the theorems of Proofs/InputQ.v for the real decoder, no hypotheses left ---- *)
Theorem real_decoder_exactly_once :
  forall enc mode (h : list item) (th : option Z) (ntrig : nat) tr s',
    run (find_key_real enc mode) th (init ntrig) h = (tr, s') ->
    let D := outcomes tr in
    flat_map d_consumed D ++ unproc s' ++ kq s' = g_bytes s' /\
    flat_map d_ev D ++ qev s' = map snd (g_ev s') /\
    flat_map d_int D ++ qint s' = map snd (g_int s') /\
    (forall w, filter (has_when w) (flat_map d_sched D) ++ filter (has_when w) (qsched s')
               = filter (has_when w) (g_sched s')) /\
    Permutation (flat_map d_sig D ++ sigints s') (g_sig s').
Proof.
  intros enc mode. apply exactly_once_all_histories;
    [apply find_key_real_lossless|apply find_key_real_progress].
Qed.

Theorem real_decoder_bytes_in_order :
  forall enc mode h th ntrig tr s',
    run (find_key_real enc mode) th (init ntrig) h = (tr, s') -> no_raise (outcomes tr) ->
    flat_map d_bytes (outcomes tr) ++ unproc s' ++ kq s' = g_bytes s'.
Proof.
  intros enc mode. apply bytes_exactly_once_in_order;
    [apply find_key_real_lossless|apply find_key_real_progress].
Qed.

Theorem real_decoder_events_in_trigger_order :
  forall enc mode h th ntrig tr s',
    run (find_key_real enc mode) th (init ntrig) h = (tr, s') ->
    (exists Gd Gp, g_ev s' = Gd ++ Gp /\ map snd Gd = flat_map d_ev (outcomes tr) /\ map snd Gp = qev s' /\
       forall i, filter (fun p => N.eqb (fst p) i) (g_ev s')
                 = filter (fun p => N.eqb (fst p) i) Gd ++ filter (fun p => N.eqb (fst p) i) Gp) /\
    (exists Gd Gp, g_int s' = Gd ++ Gp /\ map snd Gd = flat_map d_int (outcomes tr) /\ map snd Gp = qint s' /\
       forall i, filter (fun p => Nat.eqb (fst p) i) (g_int s')
                 = filter (fun p => Nat.eqb (fst p) i) Gd ++ filter (fun p => Nat.eqb (fst p) i) Gp).
Proof.
  intros enc mode. apply events_in_trigger_order;
    [apply find_key_real_lossless|apply find_key_real_progress].
Qed.

(* non-vacuity: a history with the real decoder (utf-8, curtsies names) that
   exercises a 2-byte character, an escape sequence, a paste and every queue *)
Example real_decoder_nonvacuous :
  outcomes (fst (run (find_key_real Utf8 CURTSIES) (Some 3) (init 1)
    [Env (Arrive [195; 169; 27; 91; 65]%N); Env (Trigger 0 7); Env (Sched 5 8); Env (Sigint 1);
     Req (Some 0) []; Req (Some 0) []; Req (Some 0) []; Env (Tick 6); Req (Some 0) [];
     Req None [TsTrigger 0 3]; Req (Some 2) []]))
  = [OSigint 1; OEvent SrcEv 7;
     OPaste [([233], [195; 169]); ([60; 85; 80; 62], [27; 91; 65])]%N;
     OSched 5 8; OEvent SrcInt 3; ONone].
Proof. vm_compute. reflexivity. Qed.

(* ========================================================================== *)
(* The further theorems of Proofs/InputQ.v for the real decoder                  *)
(* ========================================================================== *)
(* (b) something deliverable at the call => returned at once, clock untouched *)
Theorem real_decoder_deliverable_at_once : forall enc mode th tmo s sc s' sc' o,
  deliverable_at_call s -> send (find_key_real enc mode) th tmo s sc = (s', sc', o) ->
  now s' = now s /\ sc' = sc /\ o <> ONone /\ o <> OBlocked /\ o <> OFuel.
Proof.
  intros enc mode th tmo s sc s' sc' o. unfold send.
  apply deliverable_at_once; [apply find_key_real_lossless|apply find_key_real_progress].
Qed.

Lemma real_decoded_key_named : forall enc mode ku,
  decoded_key (find_key_real enc mode) ku ->
  snd ku <> [] /\ name_ok enc mode (snd ku) (fst ku) = true.
Proof.
  intros enc mode [k used] (buf & rest & E). cbn [fst snd] in *. split.
  - pose proof (find_key_real_progress enc mode buf) as HP. now rewrite E in HP.
  - eapply find_key_real_named; exact E.
Qed.

(* (c) the paste clause with the real decoder: every keypress of the paste event
   (of the single key, below the threshold) is the C03 name of exactly its bytes *)
Theorem real_decoder_read_burst : forall enc mode th tmo s sc s' sc' o,
  sigints s = [] -> qev s = [] -> qint s = [] -> (forall q, In q (qsched s) -> now s <= fst q) ->
  unproc s = [] -> kq s <> [] ->
  send (find_key_real enc mode) th tmo s sc = (s', sc', o) ->
  let n := Nat.min read_size_nat (length (kq s)) in
  now s' = now s /\ sc' = sc /\
  ((exists e d, o = ORaise e d /\ decoder_raised (find_key_real enc mode) e) \/
   if match th with Some t => t <? Z.of_nat n | None => false end
   then exists ks, o = OPaste ks /\ concat (map snd ks) = kq s /\
                   Forall (fun ku => snd ku <> [] /\ name_ok enc mode (snd ku) (fst ku) = true) ks /\
                   unproc s' = [] /\ kq s' = []
   else exists k used, o = OKey k used /\ name_ok enc mode used k = true /\ used <> [] /\
                       used ++ unproc s' ++ kq s' = kq s).
Proof.
  intros enc mode th tmo s sc s' sc' o H1 H2 H3 H4 H5 H6 E n. unfold send in E.
  pose proof (read_burst (find_key_real enc mode) (find_key_real_lossless enc mode)
                (find_key_real_progress enc mode) false th tmo s sc s' sc' o H1 H2 H3 H4 H5 H6 E) as R.
  cbv zeta in R. fold n in R. destruct R as (R1 & R2 & R3). split; [exact R1|]. split; [exact R2|].
  destruct R3 as [R3|R3]; [now left|right].
  destruct (match th with Some t => t <? Z.of_nat n | None => false end).
  - destruct R3 as (ks & Ro & Rc & RF & Ru & Rk). exists ks. repeat split; auto.
    eapply Forall_impl; [|exact RF]. intros ku Hku. now apply real_decoded_key_named.
  - destruct R3 as (k & used & Ro & Rd & Rn & Rb). exists k, used. repeat split; auto.
    apply (real_decoded_key_named enc mode (k, used) Rd).
Qed.

Example real_decoder_read_burst_nonvacuous :
  let s := apply_envs [Arrive [195; 169; 27; 91; 65; 226; 130; 172]%N] (init 0) in
  let '(s', _, o) := send (find_key_real Utf8 CURTSIES) (Some 3) None s [] in
  o = OPaste [([233], [195; 169]); ([60; 85; 80; 62], [27; 91; 65]); ([8364], [226; 130; 172])]%N /\
  unproc s' = [] /\ kq s' = [].
Proof. vm_compute. auto. Qed.

(* a request raises only if the real decoder raised, or the UnboundLocalError case *)
Theorem real_decoder_raise_origin : forall enc mode th tmo s sc s' sc' e d,
  send (find_key_real enc mode) th tmo s sc = (s', sc', ORaise e d) ->
  decoder_raised (find_key_real enc mode) e \/
  (e = OtherError /\ d = [] /\ qsched s = [] /\ exists q, sched_in sc q).
Proof.
  intros enc mode th tmo s sc s' sc' e d. unfold send.
  apply raise_origin. apply find_key_real_progress.
Qed.

(* ========================================================================== *)
(* (d) when the real decoder raises                                             *)
(* ========================================================================== *)
(* What a buffer can look like when the input stream is valid (ASCII bytes and
   ESC-initiated table sequences, any byte under latin-1, well-formed multi-byte
   characters under utf-8: Proofs/Keys.v [atom]) and reads end ANYWHERE:
   - pieces: complete atoms, and stray continuation bytes (0x80..0xBF, utf-8) --
     what is left of a character whose first bytes went with an earlier read;
   - at the end possibly a character cut by the read boundary ([cut_tail]). *)
Local Open Scope N_scope.

Inductive piece (enc : encoding) : list N -> Prop :=
| piece_atom : forall a, atom enc a -> piece enc a
| piece_stray : forall b, enc = Utf8 -> 128 <= b < 192 -> piece enc [b].

Inductive cut_tail (enc : encoding) : list N -> Prop :=
| cut_none : cut_tail enc []
| cut_char : forall c i, enc = Utf8 -> is_scalar c = true -> 128 <= c ->
    (1 <= i < length (utf8_encode c))%nat -> cut_tail enc (firstn i (utf8_encode c)).

Lemma firstn_has_high : forall c i, is_scalar c = true -> 128 <= c -> (1 <= i)%nat ->
  has_high (firstn i (utf8_encode c)) = true.
Proof.
  intros c i Sc L Hi. destruct (utf8_atom_shape c Sc L) as (b0 & tail & E & Hb0 & _).
  rewrite E. destruct i; [lia|]. cbn [firstn]. apply has_high_cons. lia.
Qed.

(* inside a character, after >= 2 of its bytes, the decoder asks for more even
   when the read ends there (the known findings F-C08a/b start here) *)
Lemma cut_full_more : forall c j mode full, is_scalar c = true -> 128 <= c ->
  (2 <= j < length (utf8_encode c))%nat ->
  get_key Utf8 mode full (firstn j (utf8_encode c)) = More.
Proof.
  intros c j mode full Sc L Hj.
  assert (Tk : tok_ok Utf8 (utf8_encode c)).
  { apply token_tok_ok. apply (tok_char Utf8 c).
    - cbn [encode_char]. now rewrite Sc.
    - destruct (utf8_atom_shape c Sc L) as (b0 & tail & E & Hb0 & Ht & Hh & Hl).
      apply multibyte_not_table; [assumption|lia]. }
  destruct Tk as (_ & Hpre & _).
  pose proof (Hpre j ltac:(lia)) as HM.
  set (s := firstn j (utf8_encode c)) in *.
  assert (Hlen : length s = j) by (subst s; rewrite firstn_length; lia).
  assert (Hh : has_high s = true) by (subst s; apply firstn_has_high; auto; lia).
  apply get_key_more_iff in HM. destruct HM as (H1 & _ & H3).
  apply get_key_more_iff. split; [exact H1|].
  destruct H3 as [H3|H3]; [rewrite (high_not_prefix s Hh) in H3; discriminate|].
  assert (HD : decodable Utf8 s = false).
  { unfold waiting in H3. destruct (decodable Utf8 s); [discriminate|reflexivity]. }
  destruct (high_long_not_table s Hh ltac:(lia)) as [Lc Ls].
  split; [|now right].
  unfold key_known, in_table. rewrite Lc, Ls, HD. now destruct full.
Qed.

(* the buffer runs out inside a character after >= 2 of its bytes: ValueError *)
Lemma find_key_go_cut : forall c i, is_scalar c = true -> 128 <= c ->
  (2 <= i < length (utf8_encode c))%nat ->
  forall suf cur, cur ++ suf = firstn i (utf8_encode c) -> (cur <> [] \/ suf <> []) ->
  find_key_go Utf8 BYTES cur suf = Raise ValueError.
Proof.
  intros c i Sc L Hi. set (t := utf8_encode c) in *.
  assert (Tk : tok_ok Utf8 t).
  { apply token_tok_ok. apply (tok_char Utf8 c).
    - cbn [encode_char]. now rewrite Sc.
    - destruct (utf8_atom_shape c Sc L) as (b0 & tail & E & Hb0 & Ht & Hh & Hl).
      apply multibyte_not_table; [assumption|fold t; lia]. }
  destruct Tk as (_ & Hpre & _).
  induction suf as [|b suf IH]; intros cur E Hne; cbn [find_key_go].
  - destruct cur; [destruct Hne as [Hne|Hne]; contradiction|reflexivity].
  - assert (Hlen : (length cur + S (length suf) = i)%nat).
    { apply (f_equal (@length N)) in E. rewrite app_length, firstn_length in E. cbn [length] in E. lia. }
    assert (P : cur ++ [b] = firstn (length cur + 1) t).
    { assert (E2 : firstn (length cur + 1) (firstn i t) = cur ++ [b]).
      { rewrite <- E. replace (cur ++ b :: suf) with ((cur ++ [b]) ++ suf) by (now rewrite <- app_assoc).
        rewrite firstn_app. replace (length cur + 1 - length (cur ++ [b]))%nat with O
          by (rewrite app_length; cbn [length]; lia).
        cbn [firstn]. rewrite app_nil_r. apply firstn_all2. rewrite app_length. cbn [length]. lia. }
      rewrite <- E2. rewrite firstn_firstn. f_equal. lia. }
    assert (HM : get_key Utf8 BYTES (is_nil suf) (cur ++ [b]) = More).
    { rewrite P. destruct suf as [|b' suf'].
      - cbn [is_nil]. apply cut_full_more; auto. cbn [length] in Hlen. fold t. lia.
      - cbn [is_nil]. apply Hpre. cbn [length] in Hlen. lia. }
    rewrite HM. apply IH.
    + now rewrite <- app_assoc.
    + left. destruct cur; discriminate.
Qed.

Definition ok_state' (cur : list N) (ps : list (list N)) (tl : list N) : Prop :=
  cur = [] \/ (In cur keymap_prefixes /\ (ps <> [] \/ tl <> [])).

Definition go_result' (enc : encoding) (cur : list N) (ps : list (list N)) (tl : list N)
           (r : res (option (str * list N * list N))) : Prop :=
  match r with
  | Raise e =>
      (enc <> Latin1 /\ e = UnicodeDecodeError /\
       exists p b post, cur ++ concat ps ++ tl = p ++ b :: post /\ In p keymap_prefixes /\ 128 <= b) \/
      (e = ValueError /\ enc = Utf8 /\ cur = [] /\ ps = [] /\ (2 <= length tl)%nat)
  | Ok None => ps = [] /\ tl = []
  | Ok (Some (_, _, rest)) =>
      (exists used' ps', ps = used' ++ ps' /\ rest = concat ps' ++ tl) \/
      (cur = [] /\ ps = [] /\ length tl = 1%nat /\ rest = [])
  end.

Lemma nonnil_of_is_nil : forall (ps : list (list N)) tl,
  is_nil (concat ps ++ tl) = false -> ps <> [] \/ tl <> [].
Proof.
  intros ps tl H. destruct ps; [|left; discriminate]. destruct tl; [discriminate|right; discriminate].
Qed.

Lemma find_key_go_valid_cut : forall enc tl, cut_tail enc tl ->
  forall ps, Forall (piece enc) ps ->
  forall cur, ok_state' cur ps tl -> go_result' enc cur ps tl (find_key_go enc BYTES cur (concat ps ++ tl)).
Proof.
  intros enc tl Htl ps H. induction H as [|a ps Ha Hs IH]; intros cur St.
  - (* only the cut character is left *)
    cbn [concat app]. destruct Htl as [|c i -> Sc L Hi].
    + destruct St as [->|[_ [C|C]]]; [cbn; auto|contradiction|contradiction].
    + destruct (utf8_atom_shape c Sc L) as (b0 & tail & E & Hb0 & Ht & Hh & Hl).
      destruct St as [->|[P _]].
      * destruct (Nat.eq_dec i 1) as [->|Hi1].
        -- rewrite E. cbn [firstn find_key_go app is_nil].
           pose proof (one_step_tree [] b0 Utf8 BYTES true (or_introl eq_refl) ltac:(lia)) as T.
           cbn [app] in T. unfold expected_step, expected_step_with in T. cbn [nonempty andb app] in T.
           rewrite andb_false_r in T.
           assert (T' : shape_of (get_key Utf8 BYTES true [b0]) = SKey)
             by (rewrite T; destruct (growable [b0]); reflexivity).
           apply shape_key in T'. destruct T' as [n ->]. cbn [go_result']. right. auto.
        -- rewrite (find_key_go_cut c i Sc L ltac:(lia) (firstn i (utf8_encode c)) []); [|reflexivity|].
           ++ cbn [go_result']. right. repeat split; auto. rewrite firstn_length. lia.
           ++ right. rewrite E. destruct i; [lia|discriminate].
      * rewrite E. destruct i; [lia|]. cbn [firstn find_key_go].
        assert (R : get_key Utf8 BYTES (is_nil (firstn i tail)) (cur ++ [b0]) = Err UnicodeDecodeError).
        { apply one_step_raises_iff; [now right | lia |]. repeat split; try lia; try discriminate.
          intro; subst cur. now apply prefix_nonempty. }
        rewrite R. cbn [go_result']. left. split; [discriminate|]. split; [reflexivity|].
        exists cur, b0, (firstn i tail). repeat split; [assumption|lia].
  - assert (Node : In cur tree_nodes) by (destruct St as [->|[P _]]; [now left|now right]).
    assert (Single : forall b, a = [b] -> b < 256 ->
              nonempty cur && (128 <=? b) && negb (encoding_eqb enc Latin1) = false ->
              (forall full, encoding_eqb enc Utf8 && is_nil cur && in_range 192 253 b && negb full = false) ->
              go_result' enc cur (a :: ps) tl (find_key_go enc BYTES cur (concat (a :: ps) ++ tl))).
    { intros b -> Hb C1 C2. cbn [concat app find_key_go].
      pose proof (one_step_tree cur b enc BYTES (is_nil (concat ps ++ tl)) Node Hb) as T.
      unfold expected_step, expected_step_with in T. rewrite C1, C2 in T.
      destruct (growable (cur ++ [b])) eqn:G; [destruct (is_nil (concat ps ++ tl)) eqn:F|].
      - apply shape_key in T. destruct T as [n ->]. cbn [go_result']. left. exists [[b]], ps. auto.
      - apply shape_more in T. rewrite T.
        assert (St' : ok_state' (cur ++ [b]) ps tl).
        { right. split; [apply in_prefixes_In; now rewrite prefixes_correct|]. now apply nonnil_of_is_nil. }
        specialize (IH (cur ++ [b]) St').
        destruct (find_key_go enc BYTES (cur ++ [b]) (concat ps ++ tl)) as [[[[k u] r]|]|e]; cbn [go_result'] in *.
        + destruct IH as [(used' & ps' & -> & ->)|(C & _)]; [|destruct cur; discriminate].
          left. exists ([b] :: used'), ps'. auto.
        + destruct IH as [-> ->]. discriminate.
        + destruct IH as [(I1 & I2 & p & b' & post & E & I3)|(_ & _ & C & _)]; [|destruct cur; discriminate].
          left. split; [assumption|]. split; [assumption|].
          exists p, b', post. rewrite <- app_assoc in E. cbn [app] in E. auto.
      - apply shape_key in T. destruct T as [n ->]. cbn [go_result']. left. exists [[b]], ps. auto. }
    assert (FC03 : forall b post, 128 <= b < 256 -> enc <> Latin1 -> In cur keymap_prefixes ->
              concat (a :: ps) ++ tl = b :: post ->
              go_result' enc cur (a :: ps) tl (find_key_go enc BYTES cur (concat (a :: ps) ++ tl))).
    { intros b post Hb HL P E. rewrite E. cbn [find_key_go].
      assert (R : get_key enc BYTES (is_nil post) (cur ++ [b]) = Err UnicodeDecodeError).
      { apply one_step_raises_iff; [now right | lia |]. repeat split; try lia; try assumption.
        intro; subst cur. now apply prefix_nonempty. }
      rewrite R. cbn [go_result']. left. split; [assumption|]. split; [reflexivity|].
      exists cur, b, post. rewrite E. repeat split; [assumption|lia]. }
    destruct Ha as [a Hat | b -> Hb].
    + destruct Hat as [b Hb | b -> Hb | c -> Sc L].
      * apply (Single b); [reflexivity | lia | |].
        -- replace (128 <=? b) with false by lia. now rewrite andb_false_r.
        -- intro full. unfold in_range. replace (192 <=? b) with false by lia. cbn [andb].
           now rewrite andb_false_r.
      * apply (Single b); [reflexivity | assumption | now rewrite andb_false_r | reflexivity].
      * destruct (utf8_atom_shape c Sc L) as [b0 [tail [E [Hb0 [Ht [Hh Hl]]]]]].
        destruct St as [->|[P _]].
        -- cbn [concat]. rewrite <- app_assoc.
           assert (Tk : tok_ok Utf8 (utf8_encode c)).
           { apply token_tok_ok. apply (tok_char Utf8 c).
             - cbn [encode_char]. now rewrite Sc.
             - apply multibyte_not_table; [assumption|lia]. }
           rewrite (find_key_go_token Utf8 _ (concat ps ++ tl) Tk (utf8_encode c) []); [|reflexivity|apply Tk].
           cbn [go_result']. left. exists [utf8_encode c], ps. auto.
        -- apply (FC03 b0 (tail ++ concat ps ++ tl)); [lia|discriminate|assumption|].
           cbn [concat]. rewrite E. now rewrite <- !app_assoc.
    + destruct St as [->|[P _]].
      * apply (Single b); [reflexivity | lia | reflexivity |].
        intro full. unfold in_range. replace (b <=? 253) with true by lia.
        replace (192 <=? b) with false by lia. now rewrite andb_false_r.
      * apply (FC03 b (concat ps ++ tl)); [lia|discriminate|assumption|reflexivity].
Qed.

Lemma fk_go_raise_cases : forall enc mode buf cur e used rest,
  fk_go enc mode cur buf = FkRaise e used rest ->
  (e = ValueError /\ rest = [] /\ used = cur ++ buf) \/
  (exists full, get_key enc mode full used = Err e).
Proof.
  induction buf as [|b buf IH]; intros cur e used rest H; cbn [fk_go] in H.
  - destruct cur; [discriminate|]. injection H as <- <- <-. left. rewrite app_nil_r. auto.
  - destruct (get_key enc mode (is_nil buf) (cur ++ [b])) as [n| |e'] eqn:G; [discriminate| |].
    + apply IH in H. destruct H as [(A & B & C)|H]; [left|now right].
      rewrite <- app_assoc in C. auto.
    + injection H as <- <- <-. right. exists (is_nil buf). exact G.
Qed.

Lemma cut_tail_short : forall enc tl, cut_tail enc tl -> (length tl <= 3)%nat.
Proof.
  intros enc tl [|c i _ Sc L Hi]; [cbn; lia|].
  destruct (utf8_atom_shape c Sc L) as (_ & _ & _ & _ & _ & _ & Hl). rewrite firstn_length. lia.
Qed.

Lemma find_key_go_to_bytes : forall enc mode buf,
  cut1 (fk_erase (find_key_real enc mode buf)) = cut1 (find_key_go enc BYTES [] buf).
Proof.
  intros enc mode buf. unfold find_key_real. rewrite fk_go_find_key_go. apply find_key_go_cuts.
Qed.

(* (d) The real decoder, on ANY buffer made of valid pieces with possibly a
   character cut by the read boundary at its end, in every encoding and naming
   mode, raises only
   - F-C03: UnicodeDecodeError, utf-8/ascii, a member of KEYMAP_PREFIXES directly
     followed by a byte >= 0x80 in the buffer; or
   - F-C08a/b: ValueError, utf-8, the buffer IS the beginning of a multi-byte
     character, >= 2 of its bytes (the read boundary fell strictly inside the
     character after >= 2 of its bytes); then exactly those bytes are popped
     (and thereby dropped by _send), nothing stays. *)
Theorem real_decoder_raises_only_known : forall enc mode ps tl e used rest,
  Forall (piece enc) ps -> cut_tail enc tl ->
  find_key_real enc mode (concat ps ++ tl) = FkRaise e used rest ->
  (e = UnicodeDecodeError /\ enc <> Latin1 /\ fc03_in (concat ps ++ tl)) \/
  (e = ValueError /\ enc = Utf8 /\ ps = [] /\ (2 <= length tl)%nat /\ used = tl /\ rest = []).
Proof.
  intros enc mode ps tl e used rest Hps Htl E.
  pose proof (find_key_go_to_bytes enc mode (concat ps ++ tl)) as HC. rewrite E in HC. cbn [fk_erase cut1] in HC.
  pose proof (find_key_go_valid_cut enc tl Htl ps Hps [] (or_introl eq_refl)) as G.
  destruct (find_key_go enc BYTES [] (concat ps ++ tl)) as [[[[k u] r]|]|e']; cbn [cut1] in HC; try discriminate.
  injection HC as <-. cbn [go_result'] in G.
  destruct G as [(G1 & G2 & p & b & post & G3 & G4 & G5)|(G1 & G2 & _ & G3 & G4)].
  - left. split; [assumption|]. split; [assumption|]. exists [], p, b, post. cbn [app] in *. auto.
  - right. subst ps. cbn [concat app] in *. repeat split; auto.
    + unfold find_key_real in E. pose proof (fk_go_split enc mode tl []) as HS. rewrite E in HS.
      destruct HS as [HS _]. cbn [app] in HS.
      apply fk_go_raise_cases in E. destruct E as [(_ & _ & E)|[full E]]; [exact E|exfalso].
      apply get_key_raises_iff in E. destruct E as [[E _]|(_ & _ & _ & _ & E)]; [|subst e; discriminate].
      pose proof (cut_tail_short enc tl Htl) as Hsh. pose proof max_keypress_ge_4 as HM.
      apply (f_equal (@length N)) in HS. rewrite app_length in HS. lia.
    + unfold find_key_real in E. pose proof (fk_go_split enc mode tl []) as HS. rewrite E in HS.
      destruct HS as [HS _]. cbn [app] in HS.
      apply fk_go_raise_cases in E. destruct E as [(_ & E & _)|[full E]]; [exact E|exfalso].
      apply get_key_raises_iff in E. destruct E as [[E _]|(_ & _ & _ & _ & E)]; [|subst e; discriminate].
      pose proof (cut_tail_short enc tl Htl) as Hsh. pose proof max_keypress_ge_4 as HM.
      apply (f_equal (@length N)) in HS. rewrite app_length in HS. lia.
Qed.

(* ... and when it answers a key, the key is cut at a piece boundary and what
   stays in the buffer is again such a buffer (so the statement above applies to
   every later call on what is left); or the buffer was the first byte of a cut
   character, which alone is (mis)taken for an 8-bit Meta key (no raise, nothing lost) *)
Theorem real_decoder_key_on_valid : forall enc mode ps tl k used rest,
  Forall (piece enc) ps -> cut_tail enc tl ->
  find_key_real enc mode (concat ps ++ tl) = FkKey k used rest ->
  (exists used' ps', ps = used' ++ ps' /\ used = concat used' /\ rest = concat ps' ++ tl) \/
  (ps = [] /\ length tl = 1%nat /\ used = tl /\ rest = []).
Proof.
  intros enc mode ps tl k used rest Hps Htl E.
  pose proof (find_key_real_lossless enc mode (concat ps ++ tl)) as HL. rewrite E in HL.
  pose proof (find_key_go_to_bytes enc mode (concat ps ++ tl)) as HC. rewrite E in HC. cbn [fk_erase cut1] in HC.
  pose proof (find_key_go_valid_cut enc tl Htl ps Hps [] (or_introl eq_refl)) as G.
  destruct (find_key_go enc BYTES [] (concat ps ++ tl)) as [[[[k' u] r]|]|e']; cbn [cut1] in HC; try discriminate.
  injection HC as <- <-. cbn [go_result'] in G.
  destruct G as [(used' & ps' & -> & ->)|(_ & -> & G2 & ->)].
  - left. exists used', ps'. split; [reflexivity|]. split; [|reflexivity].
    rewrite concat_app, <- app_assoc in HL. now apply app_inv_tail in HL.
  - right. cbn [concat app] in HL. rewrite app_nil_r in HL. auto.
Qed.

Example real_decoder_raises_nonvacuous :
  piece Utf8 [97] /\ cut_tail Utf8 [226; 130] /\
  find_key_real Utf8 CURTSIES [226; 130] = FkRaise ValueError [226; 130] [] /\
  find_key_real Utf8 CURTSIES (concat [[97]] ++ [226; 130]) = FkKey [97] [97] [226; 130] /\
  find_key_real Utf8 CURTSIES [27; 195; 169] = FkRaise UnicodeDecodeError [27; 195] [169] /\
  find_key_real Utf8 CURTSIES [226] = FkKey [60; 77; 101; 116; 97; 45; 98; 62] [226] [].
Proof.
  split; [apply piece_atom, atom_ascii; lia|].
  split; [apply (cut_char Utf8 8364 2); [reflexivity|reflexivity|lia|vm_compute; lia]|].
  vm_compute. repeat split.
Qed.
Close Scope N_scope.
