(* C08 with the REAL decoder: the hypotheses fk_lossless / fk_progress of
   Proofs/InputQ.v are discharged for find_key_real enc mode (the model of
   events.get_key driven by the find_key loop of Input._send, Model/InputKeys.v)
   for every encoding and naming mode, and the theorems of Proofs/InputQ.v are
   instantiated with it. *)
From Coq Require Import Lia ZifyBool ZifyNat ZifyN Permutation.
From Curtsies Require Import Model.Base Gen.Tables Model.Utf8 Model.Keys Model.KeyMap Spec.KeySpec Proofs.Keys
  Model.InputQ Model.InputKeys Spec.QueueSpec Proofs.InputQ.
Close Scope N_scope.
Local Open Scope Z_scope.

(* ---- fk_go against Keys.find_key_go (the function C03 is proved about) -------- *)
Definition fk_erase (r : fk) : res (option (str * list N * list N)) :=
  match r with
  | FkNone => Ok None
  | FkKey k used rest => Ok (Some (k, used, rest))
  | FkRaise e _ _ => Raise e
  end.

Lemma fk_go_find_key_go : forall enc mode buf cur,
  fk_erase (fk_go enc mode cur buf) = find_key_go enc mode cur buf.
Proof.
  induction buf as [|b buf IH]; intro cur; cbn [fk_go find_key_go].
  - destruct cur; reflexivity.
  - destruct (get_key enc mode (is_nil buf) (cur ++ [b])); [reflexivity|apply IH|reflexivity].
Qed.

Lemma find_key_real_find_key : forall enc mode buf,
  fk_erase (find_key_real enc mode buf) = find_key enc mode buf.
Proof. intros. apply fk_go_find_key_go. Qed.

(* what is popped and what stays is the buffer, also when it raises; a key pops a byte *)
Lemma fk_go_split : forall enc mode buf cur,
  match fk_go enc mode cur buf with
  | FkNone => cur = [] /\ buf = []
  | FkKey k used rest => used ++ rest = cur ++ buf /\ (length cur < length used)%nat /\
                         name_ok enc mode used k = true
  | FkRaise e used rest => used ++ rest = cur ++ buf /\ used <> []
  end.
Proof.
  induction buf as [|b buf IH]; intro cur; cbn [fk_go].
  - destruct cur as [|c cur]; [auto|]. split; [reflexivity|discriminate].
  - destruct (get_key enc mode (is_nil buf) (cur ++ [b])) as [n| |e] eqn:G.
    + rewrite <- app_assoc. cbn [app]. split; [reflexivity|]. split.
      * rewrite app_length. cbn [length]. lia.
      * now apply get_key_named in G.
    + specialize (IH (cur ++ [b])).
      destruct (fk_go enc mode (cur ++ [b]) buf) as [|k used rest|e used rest].
      * destruct IH as [IH _]. destruct cur; discriminate.
      * destruct IH as (H1 & H2 & H3). rewrite <- app_assoc in H1. cbn [app] in H1.
        split; [exact H1|]. split; [|exact H3]. rewrite app_length in H2. cbn [length] in H2. lia.
      * destruct IH as (H1 & H2). rewrite <- app_assoc in H1. cbn [app] in H1. auto.
    + rewrite <- app_assoc. cbn [app]. split; [reflexivity|]. destruct cur; discriminate.
Qed.

Theorem find_key_real_lossless : forall enc mode, fk_lossless (find_key_real enc mode).
Proof.
  intros enc mode buf. unfold find_key_real. pose proof (fk_go_split enc mode buf []) as H.
  destruct (fk_go enc mode [] buf); [exact I|apply H|apply H].
Qed.

Theorem find_key_real_progress : forall enc mode, fk_progress (find_key_real enc mode).
Proof.
  intros enc mode buf. unfold find_key_real. pose proof (fk_go_split enc mode buf []) as H.
  destruct (fk_go enc mode [] buf) as [|k used rest|e used rest]; [apply H| |exact I].
  destruct H as (_ & H & _). intro E. subst used. cbn in H. lia.
Qed.

(* every key the real decoder returns is the name (C03: name_ok) of exactly the bytes it popped *)
Theorem find_key_real_named : forall enc mode buf k used rest,
  find_key_real enc mode buf = FkKey k used rest -> name_ok enc mode used k = true.
Proof.
  intros enc mode buf k used rest E. unfold find_key_real in E.
  pose proof (fk_go_split enc mode buf []) as H. rewrite E in H. apply H.
Qed.

(* ---- the theorems of Proofs/InputQ.v for the real decoder, no hypotheses left ---- *)
Theorem real_decoder_exactly_once :
  forall enc mode (h : list item) (th : option Z) (ntrig : nat) tr s',
    run (find_key_real enc mode) th (init ntrig) h = (tr, s') ->
    let D := outcomes tr in
    flat_map d_consumed D ++ unproc s' ++ kq s' = g_bytes s' /\
    flat_map d_ev D ++ qev s' = map snd (g_ev s') /\
    flat_map d_int D ++ qint s' = map snd (g_int s') /\
    (forall w, filter (has_when w) (flat_map d_sched D) ++ filter (has_when w) (qsched s')
               = filter (has_when w) (g_sched s')) /\
    Permutation (flat_map d_sig D ++ sigints s') (g_sig s').
Proof.
  intros enc mode. apply exactly_once_all_histories;
    [apply find_key_real_lossless|apply find_key_real_progress].
Qed.

Theorem real_decoder_bytes_in_order :
  forall enc mode h th ntrig tr s',
    run (find_key_real enc mode) th (init ntrig) h = (tr, s') -> no_raise (outcomes tr) ->
    flat_map d_bytes (outcomes tr) ++ unproc s' ++ kq s' = g_bytes s'.
Proof.
  intros enc mode. apply bytes_exactly_once_in_order;
    [apply find_key_real_lossless|apply find_key_real_progress].
Qed.

Theorem real_decoder_events_in_trigger_order :
  forall enc mode h th ntrig tr s',
    run (find_key_real enc mode) th (init ntrig) h = (tr, s') ->
    (exists Gd Gp, g_ev s' = Gd ++ Gp /\ map snd Gd = flat_map d_ev (outcomes tr) /\ map snd Gp = qev s' /\
       forall i, filter (fun p => N.eqb (fst p) i) (g_ev s')
                 = filter (fun p => N.eqb (fst p) i) Gd ++ filter (fun p => N.eqb (fst p) i) Gp) /\
    (exists Gd Gp, g_int s' = Gd ++ Gp /\ map snd Gd = flat_map d_int (outcomes tr) /\ map snd Gp = qint s' /\
       forall i, filter (fun p => Nat.eqb (fst p) i) (g_int s')
                 = filter (fun p => Nat.eqb (fst p) i) Gd ++ filter (fun p => Nat.eqb (fst p) i) Gp).
Proof.
  intros enc mode. apply events_in_trigger_order;
    [apply find_key_real_lossless|apply find_key_real_progress].
Qed.

(* non-vacuity: a history with the real decoder (utf-8, curtsies names) that
   exercises a 2-byte character, an escape sequence, a paste and every queue *)
Example real_decoder_nonvacuous :
  outcomes (fst (run (find_key_real Utf8 CURTSIES) (Some 3) (init 1)
    [Env (Arrive [195; 169; 27; 91; 65]%N); Env (Trigger 0 7); Env (Sched 5 8); Env (Sigint 1);
     Req (Some 0) []; Req (Some 0) []; Req (Some 0) []; Env (Tick 6); Req (Some 0) [];
     Req None [TsTrigger 0 3]; Req (Some 2) []]))
  = [OSigint 1; OEvent SrcEv 7;
     OPaste [([233], [195; 169]); ([60; 85; 80; 62], [27; 91; 65])]%N;
     OSched 5 8; OEvent SrcInt 3; ONone].
Proof. vm_compute. reflexivity. Qed.
