#!/venv/bin/python
"""Translator: dump the Python AST of the small pure helpers of curtsies, node by node,
into terms of the PyMini syntax (coq/Spec/PyMini.v) -> coq/Gen/Pure.v.

The translator decides nothing about meaning: one AST node becomes one constructor.
The reference interpreter in Spec/PyMini.v gives the meaning, and Proofs/PureTie.v
proves for ALL arguments that the generated trees compute what the hand-written models
(Model/Slice.v, Model/Width.v, Model/Keys.v) compute.  So the theorems about those
models are re-checked, on every run, against the function text that is in /repo NOW.

Fails closed: any node outside the subset raises, the check then reports the broken tie.
"""
import ast
import inspect
import os
import sys
import textwrap

REPO = os.environ.get("CURTSIES_REPO", "/repo")
sys.path.insert(0, REPO)
os.environ.setdefault("TERM", "xterm-256color")
OUT = os.path.join(os.path.dirname(os.path.abspath(__file__)), "..", "coq", "Gen", "Pure.v")

# (module, function name, Coq name)
FUNCTIONS = [
    ("curtsies.formatstring", "normalize_slice", "py_normalize_slice"),
    ("curtsies.formatstring", "interval_overlap", "py_interval_overlap"),
    ("curtsies.events", "could_be_unfinished_utf8", "py_could_be_unfinished_utf8"),
]

EXN = {"IndexError", "ValueError", "TypeError", "KeyError", "AssertionError", "NotImplementedError"}
BINOP = {ast.Add: "BAdd", ast.Sub: "BSub", ast.Mult: "BMul", ast.BitAnd: "BBitAnd", ast.BitOr: "BBitOr"}
CMPOP = {ast.Lt: "CLt", ast.LtE: "CLtE", ast.Gt: "CGt", ast.GtE: "CGtE", ast.Eq: "CEq", ast.NotEq: "CNotEq",
         ast.Is: "CIs", ast.IsNot: "CIsNot"}
CALL1 = {"len", "ord", "abs", "bool", "int"}
CALL2 = {"max", "min", "isinstance", "slice"}
CALL3 = {"slice"}


class TieError(Exception):
    pass


def bad(node, why):
    raise TieError("%s at line %s: %s" % (why, getattr(node, "lineno", "?"), ast.dump(node)[:200]))


def q(s):
    if '"' in s:
        raise TieError("identifier with a quote: %r" % s)
    return '"%s"' % s


def expr(e):
    if isinstance(e, ast.Name):
        return "(EVar %s)" % q(e.id)
    if isinstance(e, ast.Constant):
        v = e.value
        if v is None:
            return "ENoneC"
        if v is True or v is False:
            return "(EBoolC %s)" % ("true" if v else "false")
        if type(v) is int:
            return "(EInt (%d)%%Z)" % v
        bad(e, "constant outside the subset")
    if isinstance(e, ast.BinOp):
        if type(e.op) not in BINOP:
            bad(e, "binary operator outside the subset")
        return "(EBin %s %s %s)" % (BINOP[type(e.op)], expr(e.left), expr(e.right))
    if isinstance(e, ast.UnaryOp):
        if isinstance(e.op, ast.USub):
            return "(ENeg %s)" % expr(e.operand)
        if isinstance(e.op, ast.Not):
            return "(ENot %s)" % expr(e.operand)
        bad(e, "unary operator outside the subset")
    if isinstance(e, ast.Compare):
        if len(e.ops) != 1:
            bad(e, "comparison chain")
        op = type(e.ops[0])
        if op not in CMPOP:
            bad(e, "comparison operator outside the subset")
        if op in (ast.Is, ast.IsNot) and not (isinstance(e.comparators[0], ast.Constant) and e.comparators[0].value is None):
            bad(e, "`is` against something other than None")
        return "(ECmp %s %s %s)" % (CMPOP[op], expr(e.left), expr(e.comparators[0]))
    if isinstance(e, ast.BoolOp):
        ctor = "EAnd" if isinstance(e.op, ast.And) else "EOr"
        vals = [expr(v) for v in e.values]
        acc = vals[-1]
        for v in reversed(vals[:-1]):          # a or b or c  =  a or (b or c)
            acc = "(%s %s %s)" % (ctor, v, acc)
        return acc
    if isinstance(e, ast.Attribute):
        return "(EAttr %s %s)" % (expr(e.value), q(e.attr))
    if isinstance(e, ast.Call):
        if not isinstance(e.func, ast.Name) or e.keywords:
            bad(e, "call outside the subset")
        f, n = e.func.id, len(e.args)
        if any(isinstance(a, ast.Starred) for a in e.args):
            bad(e, "starred argument")
        if n == 1 and f in CALL1:
            return "(ECall1 %s %s)" % (q(f), expr(e.args[0]))
        if n == 2 and f in CALL2:
            if f == "isinstance" and not isinstance(e.args[1], ast.Name):
                bad(e, "isinstance against something other than a class name")
            return "(ECall2 %s %s %s)" % (q(f), expr(e.args[0]), expr(e.args[1]))
        if n == 3 and f in CALL3:
            return "(ECall3 %s %s %s %s)" % (q(f), expr(e.args[0]), expr(e.args[1]), expr(e.args[2]))
        bad(e, "call of %s/%d outside the subset" % (f, n))
    if isinstance(e, ast.Subscript):
        s = e.slice
        if not isinstance(s, ast.Slice) or s.step is not None:
            bad(e, "subscript outside the subset")
        lo = "None" if s.lower is None else "(Some %s)" % expr(s.lower)
        hi = "None" if s.upper is None else "(Some %s)" % expr(s.upper)
        return "(ESub %s %s %s)" % (expr(e.value), lo, hi)
    bad(e, "expression outside the subset")


def block(stmts, ind):
    items = [stmt(s, ind + 2) for s in stmts]
    if not items:
        return "[]"
    pad = " " * ind
    return "[\n" + ";\n".join(pad + "  " + i for i in items) + "\n" + pad + "]"


def stmt(s, ind):
    if isinstance(s, ast.Expr) and isinstance(s.value, ast.Constant) and isinstance(s.value.value, str):
        return "SPass"                                      # docstring
    if isinstance(s, ast.Pass):
        return "SPass"
    if isinstance(s, ast.Assign):
        if len(s.targets) != 1 or not isinstance(s.targets[0], ast.Name):
            bad(s, "assignment target outside the subset")
        return "SAssign %s %s" % (q(s.targets[0].id), expr(s.value))
    if isinstance(s, ast.AnnAssign) and isinstance(s.target, ast.Name) and s.value is not None:
        return "SAssign %s %s" % (q(s.target.id), expr(s.value))
    if isinstance(s, ast.AugAssign):
        if not isinstance(s.target, ast.Name) or type(s.op) not in BINOP:
            bad(s, "augmented assignment outside the subset")
        return "SAugAssign %s %s %s" % (q(s.target.id), BINOP[type(s.op)], expr(s.value))
    if isinstance(s, ast.If):
        return "SIf %s %s %s" % (expr(s.test), block(s.body, ind), block(s.orelse, ind))
    if isinstance(s, ast.Return):
        return "SReturn %s" % (expr(s.value) if s.value is not None else "ENoneC")
    if isinstance(s, ast.Raise):
        e = s.exc
        if isinstance(e, ast.Call):
            e = e.func                                      # the message does not matter
        if not isinstance(e, ast.Name) or s.cause is not None:
            bad(s, "raise outside the subset")
        return "SRaise %s" % (e.id if e.id in EXN else "OtherError")
    bad(s, "statement outside the subset")


def gen():
    import importlib
    out = ["(* GENERATED by gen/gen_pure.py from the working tree of the repository -- do not edit *)",
           "From Coq Require Import String ZArith List.",
           "From Curtsies Require Import Model.Base Spec.PyMini.",
           "Import ListNotations.",
           "Local Open Scope string_scope.",
           ""]
    for modname, fname, coqname in FUNCTIONS:
        mod = importlib.import_module(modname)
        fn = getattr(mod, fname)
        src = textwrap.dedent(inspect.getsource(fn))
        tree = ast.parse(src)
        if len(tree.body) != 1 or not isinstance(tree.body[0], ast.FunctionDef):
            raise TieError("%s.%s is not a plain function" % (modname, fname))
        fd = tree.body[0]
        a = fd.args
        if a.vararg or a.kwarg or a.kwonlyargs or a.defaults or a.posonlyargs or fd.decorator_list:
            raise TieError("%s.%s: signature outside the subset" % (modname, fname))
        params = [x.arg for x in a.args]
        out.append("(* %s.%s *)" % (modname, fname))
        out.append("Definition %s : fundef :=\n  mkFun [%s]\n  %s." % (
            coqname, "; ".join(q(p) for p in params), block(fd.body, 2)))
        out.append("")
    return "\n".join(out)


def main():
    try:
        text = gen()
    except TieError as e:
        print("TIE-ERROR: %s" % e)
        sys.exit(3)
    if os.environ.get("GEN_PURE_STDOUT"):
        sys.stdout.write(text)
        return
    old = open(OUT).read() if os.path.exists(OUT) else None
    if old != text:
        os.makedirs(os.path.dirname(OUT), exist_ok=True)
        with open(OUT, "w") as f:
            f.write(text)
        print("Pure.v rewritten")
    else:
        print("Pure.v unchanged")


if __name__ == "__main__":
    main()
