#!/venv/bin/python
"""Translator: dump the Python AST of the small pure helpers of curtsies, node by node,
into terms of the PyMini syntax (coq/Spec/PyMini.v) -> coq/Gen/Pure.v (the loop-free helpers) and
coq/Gen/PureFmt.v (the slicing algorithms of FmtStr: methods and properties with `for` loops, objects,
local lists; splice / append / setslice_with_length / setitem / __add__ / __radd__ with chained comparisons
(ECmpChain), keyword arguments (ECallKw), method calls with several arguments (EMethN), a filtered generator
expression (EGenIf), isinstance against a tuple of class names, assert with a message expression (SAssertMsg);
join with its loop over the items and its TypeError; __mul__ = sum(generator over range(n), FmtStr());
proofs Proofs/PureTie*.v, context Spec/PyEnvFmt.v).  Beside the trees of PureFmt.v it dumps, from the live
module, the names of the module's classes the functions mention (py_classes: checked to have no subclasses, no
bases, no metaclass -- isinstance is decided by the class name of an object) and the parameter names of the
callables that are called with keyword arguments (py_signatures).

The translator decides nothing about meaning: one AST node becomes one constructor.
The reference interpreter in Spec/PyMini.v gives the meaning, and Proofs/PureTie.v,
Proofs/PureTieKeys.v prove for ALL arguments that the generated trees compute what the
hand-written models (Model/Slice.v, Model/Width.v, Model/Keys.v) compute.  So the theorems
about those models are re-checked, on every run, against the function text that is in /repo NOW.

Besides the trees it dumps the member names of the Enum classes the functions mention
(py_enums), and it checks -- without deciding anything -- that every free name of a translated
function is accounted for: a builtin that the module does not shadow, a module-level function
that is itself translated, one of the tables dumped by gen_tables.py, an Enum class, or the
stdlib module `codecs`.  (What these names MEAN is again in Coq: Spec/PyEnv.v.)

Fails closed: any node outside the subset raises, the check then reports the broken tie.
"""
import ast
import enum
import inspect
import os
import sys
import textwrap

REPO = os.environ.get("CURTSIES_REPO", "/repo")
sys.path.insert(0, REPO)
os.environ.setdefault("TERM", "xterm-256color")
OUTDIR = os.path.join(os.path.dirname(os.path.abspath(__file__)), "..", "coq", "Gen")
OUT = os.path.join(OUTDIR, "Pure.v")

# (module, function name, Coq name); "Class.member" is a method, or the getter of a property
FUNCTIONS = [
    ("curtsies.formatstring", "normalize_slice", "py_normalize_slice"),
    ("curtsies.formatstring", "interval_overlap", "py_interval_overlap"),
    ("curtsies.events", "could_be_unfinished_utf8", "py_could_be_unfinished_utf8"),
    ("curtsies.events", "decodable", "py_decodable"),
    ("curtsies.events", "could_be_unfinished_char", "py_could_be_unfinished_char"),
    ("curtsies.events", "_key_name", "py_key_name"),
    ("curtsies.events", "get_key", "py_get_key"),
]
# a second file, so that an edit of formatstring.py does not recompile the proofs about events.py
FUNCTIONS_FMT = [
    ("curtsies.formatstring", "Chunk.s", "py_Chunk_s"),
    ("curtsies.formatstring", "Chunk.atts", "py_Chunk_atts"),
    ("curtsies.formatstring", "Chunk.__len__", "py_Chunk_len"),
    ("curtsies.formatstring", "FmtStr.__getitem__", "py_FmtStr_getitem"),
    ("curtsies.formatstring", "FmtStr.divides", "py_FmtStr_divides"),
    ("curtsies.formatstring", "width_aware_slice", "py_width_aware_slice"),
    ("curtsies.formatstring", "FmtStr.width_aware_slice", "py_FmtStr_width_aware_slice"),
    ("curtsies.formatstring", "FmtStr.splice", "py_FmtStr_splice"),
    ("curtsies.formatstring", "FmtStr.__add__", "py_FmtStr_add"),
    ("curtsies.formatstring", "FmtStr.__radd__", "py_FmtStr_radd"),
    ("curtsies.formatstring", "FmtStr.append", "py_FmtStr_append"),
    ("curtsies.formatstring", "FmtStr.setslice_with_length", "py_FmtStr_setslice_with_length"),
    ("curtsies.formatstring", "FmtStr.setitem", "py_FmtStr_setitem"),
    ("curtsies.formatstring", "FmtStr.join", "py_FmtStr_join"),
    ("curtsies.formatstring", "FmtStr.__mul__", "py_FmtStr_mul"),
]
FILES = [("Pure.v", FUNCTIONS, True), ("PureFmt.v", FUNCTIONS_FMT, False)]

EXN = {"IndexError", "ValueError", "TypeError", "KeyError", "AssertionError", "NotImplementedError",
       "UnicodeDecodeError"}
BINOP = {ast.Add: "BAdd", ast.Sub: "BSub", ast.Mult: "BMul", ast.BitAnd: "BBitAnd", ast.BitOr: "BBitOr",
         ast.Mod: "BMod"}
CMPOP = {ast.Lt: "CLt", ast.LtE: "CLtE", ast.Gt: "CGt", ast.GtE: "CGtE", ast.Eq: "CEq", ast.NotEq: "CNotEq",
         ast.Is: "CIs", ast.IsNot: "CIsNot", ast.In: "CIn", ast.NotIn: "CNotIn"}
# names the interpreter treats as builtins (functions and classes): must not be shadowed by the module
BUILTINS = {"len", "ord", "abs", "bool", "int", "all", "any", "max", "min", "isinstance", "slice", "range",
            "bytes", "str", "zip", "sum"}
# module-level data dumped by gen/gen_tables.py from the same live module (coq/Gen/Tables.v)
TABLE_GLOBALS = {"curtsies.events": {"CURTSIES_NAMES", "CURSES_NAMES", "KEYMAP_PREFIXES", "MAX_KEYPRESS_SIZE"}}
STDLIB_MODULES = {"codecs"}
# builtin constants that are NOT values of the subset: reading one is an error outcome of the interpreter (the name
# is unbound there); the translator only checks that the module does not rebind them
UNMODELLED_BUILTINS = {"NotImplemented"}
# builtins that may occur ONLY inside the message of a raise (`"... %r ..." % type(x)`: the message is not modelled, see
# message_ok); anywhere else they are outside the subset.  The translator checks that the module does not rebind them
MESSAGE_BUILTINS = {"type"}
# module-level names that are NOT translated: their meaning is a named oracle of Spec/PyEnvFmt.v.  The
# translator only checks that the name is bound to what the oracle is about:
#   "class"    a class defined in this module;      "function" a function defined in this module;
#   (mod, nm)  the object mod.nm of another module (the C library binding cwcwidth)
ORACLE_GLOBALS = {"curtsies.formatstring": {"Chunk": "class", "FmtStr": "class", "fmtstr": "function",
                                            "wcwidth": ("cwcwidth", "wcwidth"), "wcswidth": ("cwcwidth", "wcswidth")}}


class TieError(Exception):
    pass


# names called with keyword arguments / classes of the module that are mentioned, in the functions translated so
# far (of the file being written): their parameter names / their names are dumped beside the trees
KW_CALLEES = set()
CLASSES_SEEN = set()


def bad(node, why):
    raise TieError("%s at line %s: %s" % (why, getattr(node, "lineno", "?"), ast.dump(node)[:200]))


def q(s):
    if '"' in s or not s.isascii():
        raise TieError("identifier outside the subset: %r" % s)
    return '"%s"' % s


def nlist(codes):
    return "[%s]%%N" % "; ".join(str(c) for c in codes)


def call_arg(e):
    """an argument of a call: a generator expression is allowed here and only here (it is
    consumed by the call it is passed to)"""
    if isinstance(e, ast.GeneratorExp):
        if len(e.generators) != 1:
            bad(e, "generator expression with several `for`")
        g = e.generators[0]
        if len(g.ifs) > 1 or g.is_async or not isinstance(g.target, ast.Name):
            bad(e, "generator expression outside the subset")
        if g.ifs:                                                   # (elt for x in it if cond)
            return "(EGenIf %s %s %s %s)" % (expr(e.elt), q(g.target.id), expr(g.iter), expr(g.ifs[0]))
        return "(EGenExp %s %s %s)" % (expr(e.elt), q(g.target.id), expr(g.iter))
    if isinstance(e, ast.Starred):
        bad(e, "starred argument")
    return expr(e)


def expr(e):
    if isinstance(e, ast.Name):
        if e.id in MESSAGE_BUILTINS:
            bad(e, "%s outside the message of an exception" % e.id)
        return "(EVar %s)" % q(e.id)
    if isinstance(e, ast.Constant):
        v = e.value
        if v is None:
            return "ENoneC"
        if v is True or v is False:
            return "(EBoolC %s)" % ("true" if v else "false")
        if type(v) is int:
            return "(EInt (%d)%%Z)" % v
        if type(v) is str:
            return "(EStr %s)" % nlist(ord(c) for c in v)
        if type(v) is bytes:
            return "(EBytes %s)" % nlist(v)
        bad(e, "constant outside the subset")
    if isinstance(e, ast.BinOp):
        if type(e.op) not in BINOP:
            bad(e, "binary operator outside the subset")
        return "(EBin %s %s %s)" % (BINOP[type(e.op)], expr(e.left), expr(e.right))
    if isinstance(e, ast.UnaryOp):
        if isinstance(e.op, ast.USub):
            return "(ENeg %s)" % expr(e.operand)
        if isinstance(e.op, ast.Not):
            return "(ENot %s)" % expr(e.operand)
        bad(e, "unary operator outside the subset")
    if isinstance(e, ast.Compare):
        for o in e.ops:
            if type(o) not in CMPOP:
                bad(e, "comparison operator outside the subset")
        if len(e.ops) != 1:                                         # a op1 b op2 c ...
            return "(ECmpChain %s [%s])" % (expr(e.left), "; ".join(
                "(%s, %s)" % (CMPOP[type(o)], expr(c)) for o, c in zip(e.ops, e.comparators)))
        op = type(e.ops[0])
        return "(ECmp %s %s %s)" % (CMPOP[op], expr(e.left), expr(e.comparators[0]))
    if isinstance(e, ast.BoolOp):
        ctor = "EAnd" if isinstance(e.op, ast.And) else "EOr"
        vals = [expr(v) for v in e.values]
        acc = vals[-1]
        for v in reversed(vals[:-1]):          # a or b or c  =  a or (b or c)
            acc = "(%s %s %s)" % (ctor, v, acc)
        return acc
    if isinstance(e, ast.Attribute):
        return "(EAttr %s %s)" % (expr(e.value), q(e.attr))
    if isinstance(e, ast.Call):
        n = len(e.args)
        if e.keywords:                                             # f(a1, ..., an, k1=v1, ...)
            if not isinstance(e.func, ast.Name) or e.func.id == "isinstance" \
                    or any(k.arg is None for k in e.keywords) or any(isinstance(x, ast.Starred) for x in e.args):
                bad(e, "keyword arguments outside the subset")
            KW_CALLEES.add(e.func.id)
            return "(ECallKw %s [%s] [%s])" % (q(e.func.id), "; ".join(call_arg(x) for x in e.args),
                                              "; ".join("(%s, %s)" % (q(k.arg), call_arg(k.value)) for k in e.keywords))
        if isinstance(e.func, ast.Attribute):                      # obj.name(arg) / obj.name(a1, ..., an)
            if any(isinstance(x, ast.Starred) for x in e.args):
                bad(e, "starred argument of a method call")
            if n != 1:
                return "(EMethN %s %s [%s])" % (expr(e.func.value), q(e.func.attr), "; ".join(call_arg(x) for x in e.args))
            return "(EMeth1 %s %s %s)" % (expr(e.func.value), q(e.func.attr), call_arg(e.args[0]))
        if not isinstance(e.func, ast.Name):
            bad(e, "call outside the subset")
        f = e.func.id
        if n == 1 and isinstance(e.args[0], ast.Starred):           # f(*a)
            return "(ECallStar %s %s)" % (q(f), call_arg(e.args[0].value))
        if f == "isinstance" and (n != 2 or not (isinstance(e.args[1], ast.Name) or (
                isinstance(e.args[1], ast.Tuple) and e.args[1].elts
                and all(isinstance(x, ast.Name) for x in e.args[1].elts)))):
            bad(e, "isinstance against something other than a class name or a tuple of class names")
        if n == 1:
            return "(ECall1 %s %s)" % (q(f), call_arg(e.args[0]))
        if n == 2:
            return "(ECall2 %s %s %s)" % (q(f), call_arg(e.args[0]), call_arg(e.args[1]))
        if n == 3:
            return "(ECall3 %s %s %s %s)" % (q(f), call_arg(e.args[0]), call_arg(e.args[1]), call_arg(e.args[2]))
        return "(ECallN %s [%s])" % (q(f), "; ".join(call_arg(x) for x in e.args))
    if isinstance(e, ast.Subscript):
        s = e.slice
        if isinstance(s, ast.Slice):
            if s.step is not None:
                bad(e, "slice with a step")
            lo = "None" if s.lower is None else "(Some %s)" % expr(s.lower)
            hi = "None" if s.upper is None else "(Some %s)" % expr(s.upper)
            return "(ESub %s %s %s)" % (expr(e.value), lo, hi)
        if isinstance(s, ast.Tuple):
            bad(e, "subscript outside the subset")
        return "(EIndex %s %s)" % (expr(e.value), expr(s))
    if isinstance(e, ast.List) and isinstance(e.ctx, ast.Load):
        return "(EList [%s])" % "; ".join(expr(x) for x in e.elts)
    if isinstance(e, ast.Tuple) and isinstance(e.ctx, ast.Load):
        return "(ETuple [%s])" % "; ".join(expr(x) for x in e.elts)
    if isinstance(e, ast.IfExp):
        return "(ECond %s %s %s)" % (expr(e.test), expr(e.body), expr(e.orelse))
    bad(e, "expression outside the subset")


def block(stmts, ind):
    items = [stmt(s, ind + 2) for s in stmts]
    if not items:
        return "[]"
    pad = " " * ind
    return "[\n" + ";\n".join(pad + "  " + i for i in items) + "\n" + pad + "]"


def message_ok(m):
    """the message of raise X(msg) / assert c, msg is not modelled (exceptions are identified by their
    class): it must be an expression whose evaluation cannot itself raise for the values of the subset --
    a string constant, an f-string over plain names, or `constant % name` / `constant % type(name)` with a
    single %r / %s conversion (there are no tuples; the class of a value is never a tuple, and its repr / str
    is the one of `type`: the classes of the subset have no metaclass)"""
    if isinstance(m, ast.Constant) and type(m.value) is str:
        return True
    if isinstance(m, ast.JoinedStr):                       # f"... {name!r} ... {type(name)!r} ..."
        def plain(v):
            return ((isinstance(v, ast.Name) and v.id not in MESSAGE_BUILTINS)
                    or (isinstance(v, ast.Call) and isinstance(v.func, ast.Name) and v.func.id == "type"
                        and not v.keywords and len(v.args) == 1 and isinstance(v.args[0], ast.Name)
                        and v.args[0].id not in MESSAGE_BUILTINS))
        return all((isinstance(v, ast.Constant) and type(v.value) is str)
                   or (isinstance(v, ast.FormattedValue) and plain(v.value)
                       and v.conversion in (-1, 114, 115) and v.format_spec is None)
                   for v in m.values)
    if (isinstance(m, ast.BinOp) and isinstance(m.op, ast.Mod) and isinstance(m.left, ast.Constant)
            and type(m.left.value) is str
            and ((isinstance(m.right, ast.Name) and m.right.id not in MESSAGE_BUILTINS)
                 or (isinstance(m.right, ast.Call) and isinstance(m.right.func, ast.Name) and m.right.func.id == "type"
                     and not m.right.keywords and len(m.right.args) == 1 and isinstance(m.right.args[0], ast.Name)
                     and m.right.args[0].id not in MESSAGE_BUILTINS))):
        f = m.left.value
        return f.count("%") == 1 and (("%r" in f) or ("%s" in f))
    return False


def stmt(s, ind):
    if isinstance(s, ast.Expr):
        if isinstance(s.value, ast.Constant) and isinstance(s.value.value, str):
            return "SPass"                                  # docstring
        return "SExpr %s" % expr(s.value)
    if isinstance(s, ast.Pass):
        return "SPass"
    if isinstance(s, ast.Assign):
        if len(s.targets) != 1 or not isinstance(s.targets[0], ast.Name):
            bad(s, "assignment target outside the subset")
        return "SAssign %s %s" % (q(s.targets[0].id), expr(s.value))
    if isinstance(s, ast.AnnAssign) and isinstance(s.target, ast.Name) and s.value is not None:
        return "SAssign %s %s" % (q(s.target.id), expr(s.value))
    if isinstance(s, ast.AugAssign):
        if not isinstance(s.target, ast.Name) or type(s.op) not in BINOP:
            bad(s, "augmented assignment outside the subset")
        return "SAugAssign %s %s %s" % (q(s.target.id), BINOP[type(s.op)], expr(s.value))
    if isinstance(s, ast.If):
        return "SIf %s %s %s" % (expr(s.test), block(s.body, ind), block(s.orelse, ind))
    if isinstance(s, ast.Return):
        return "SReturn %s" % (expr(s.value) if s.value is not None else "ENoneC")
    if isinstance(s, ast.Raise):
        e = s.exc
        if isinstance(e, ast.Call):
            if e.keywords or len(e.args) > 1 or (e.args and not message_ok(e.args[0])):
                bad(s, "exception arguments outside the subset")
            e = e.func
        if not isinstance(e, ast.Name) or s.cause is not None:
            bad(s, "raise outside the subset")
        return "SRaise %s" % (e.id if e.id in EXN else "OtherError")
    if isinstance(s, ast.Assert):
        if s.msg is not None and not message_ok(s.msg):
            return "SAssertMsg %s %s" % (expr(s.test), expr(s.msg))     # the message is an expression of its own
        return "SAssert %s" % expr(s.test)
    if isinstance(s, ast.Try):
        if s.finalbody or len(s.handlers) != 1:
            bad(s, "try statement outside the subset")
        h = s.handlers[0]
        if h.name is not None or not isinstance(h.type, ast.Name) or h.type.id not in EXN:
            bad(s, "exception handler outside the subset")
        return "STry %s %s %s %s" % (block(s.body, ind), h.type.id, block(h.body, ind), block(s.orelse, ind))
    if isinstance(s, ast.For):
        if s.orelse:
            bad(s, "for ... else")
        t = s.target
        if isinstance(t, ast.Name):
            tgt = "(TName %s)" % q(t.id)
        elif isinstance(t, ast.Tuple) and all(isinstance(x, ast.Name) for x in t.elts):
            tgt = "(TTuple [%s])" % "; ".join(q(x.id) for x in t.elts)
        else:
            bad(s, "for target outside the subset")
        return "SFor %s %s %s" % (tgt, expr(s.iter), block(s.body, ind))
    if isinstance(s, ast.Break):
        return "SBreak"
    if isinstance(s, ast.Continue):
        return "SContinue"
    bad(s, "statement outside the subset")


def walk_evaluated(root):
    """ast.walk without the annotation of an annotated assignment `x: T = v`: in a function scope Python never
    evaluates it (the statement is `x = v`, which is how it is translated)"""
    todo = [root]
    while todo:
        n = todo.pop()
        yield n
        for name, child in ast.iter_fields(n):
            if isinstance(n, ast.AnnAssign) and name == "annotation":
                continue
            if isinstance(child, ast.AST):
                todo.append(child)
            elif isinstance(child, list):
                todo.extend(x for x in child if isinstance(x, ast.AST))


def free_names(fd):
    """names read in the body or the default values of the function (annotations are not evaluated by the
    interpreter, nor by Python inside a function body) that are not its parameters, assigned variables or
    comprehension variables"""
    bound = {a.arg for a in fd.args.args}
    loads = set()
    for root in list(fd.body) + list(fd.args.defaults):
        for n in walk_evaluated(root):
            if isinstance(n, ast.Name):
                if isinstance(n.ctx, ast.Load):
                    loads.add(n.id)
                else:
                    bound.add(n.id)
    return loads - bound


def check_free_names(modname, mod, fname, fd, enums):
    import builtins
    translated = {f for m, f, _ in FUNCTIONS + FUNCTIONS_FMT if m == modname and "." not in f}
    g = vars(mod)
    for n in sorted(free_names(fd)):
        if n in BUILTINS or n in EXN or n in UNMODELLED_BUILTINS or n in MESSAGE_BUILTINS:
            if n in g or not hasattr(builtins, n):
                raise TieError("%s.%s: builtin %s is shadowed by the module" % (modname, fname, n))
            continue
        if n not in g:
            raise TieError("%s.%s: free name %s is neither a modelled builtin nor a module global" % (modname, fname, n))
        v = g[n]
        if n in translated:
            if not inspect.isfunction(v) or v.__name__ != n or v.__module__ != modname:
                raise TieError("%s.%s: %s is not the module's function of that name" % (modname, fname, n))
            continue
        if n in TABLE_GLOBALS.get(modname, ()):
            continue
        if n in ORACLE_GLOBALS.get(modname, {}):
            kind = ORACLE_GLOBALS[modname][n]
            if kind == "class" and isinstance(v, type) and v.__module__ == modname and v.__name__ == n:
                # isinstance(x, <this class>) is decided by the class NAME of the object: no subclasses
                if v.__subclasses__() or v.__mro__ != (v, object) or type(v) is not type:
                    raise TieError("%s.%s: class %s has subclasses / bases / a metaclass" % (modname, fname, n))
                CLASSES_SEEN.add(n)
                continue
            if kind == "function" and inspect.isfunction(v) and v.__module__ == modname and v.__name__ == n:
                continue
            if isinstance(kind, tuple) and v is getattr(sys.modules.get(kind[0]), kind[1], None) and v is not None:
                continue
            raise TieError("%s.%s: %s is not what its oracle is about (%r)" % (modname, fname, n, kind))
        if isinstance(v, type) and issubclass(v, enum.Enum):
            if len(list(v)) != len(v.__members__):
                raise TieError("%s.%s: enum %s has aliases" % (modname, fname, n))
            enums[n] = list(v.__members__)
            continue
        if n in STDLIB_MODULES and v is sys.modules.get(n) and inspect.ismodule(v):
            continue
        raise TieError("%s.%s: free name %s (%s) is not accounted for" % (modname, fname, n, type(v).__name__))


def gen(functions=None, with_enums=True):
    import importlib
    if functions is None:
        functions = FUNCTIONS
    out = ["(* GENERATED by gen/gen_pure.py from the working tree of the repository -- do not edit *)",
           "From Coq Require Import String ZArith List.",
           "From Curtsies Require Import Model.Base Spec.PyMini.",
           "Import ListNotations.",
           "Local Open Scope string_scope.",
           ""]
    enums = {}
    KW_CALLEES.clear()
    CLASSES_SEEN.clear()
    for modname, fname, coqname in functions:
        try:
            out.append(gen_function(importlib, modname, fname, coqname, enums))
        except TieError as e:
            # one function outside the subset must not take the ties of the others with it: it gets a stub that
            # raises, so exactly the tie theorems about THIS function stop checking (and say why)
            FAILED.append("%s.%s: %s" % (modname, fname, e))
            out.append("(* %s.%s -- UNTRANSLATABLE: %s *)" % (modname, fname, str(e).replace("*)", "* )").replace("(*", "( *").replace('"', "''")))
            out.append("Definition %s : fundef := mkFun [] [] [SRaise OtherError]." % coqname)
        out.append("")
    if with_enums:
        out.append("(* member names of the Enum classes mentioned by the functions above *)")
        out.append("Definition py_enums : list (string * list string) :=\n  [%s]." % "; ".join(
            "(%s, [%s])" % (q(n), "; ".join(q(m) for m in ms)) for n, ms in sorted(enums.items())))
        out.append("")
    elif enums:
        raise TieError("Enum classes are not expected in this file: %s" % sorted(enums))
    if not with_enums:
        out.append(signatures(functions))
    return "\n".join(out)


def signatures(functions):
    """the classes of the module the functions above mention, and the parameter names of what they call with
    keyword arguments (a class: the parameters of __init__ after self), read off the live objects"""
    import importlib
    mods = {m for m, _, _ in functions}
    if len(mods) != 1:
        raise TieError("one module per file expected")
    mod = importlib.import_module(mods.pop())
    sigs = []
    for n in sorted(KW_CALLEES):
        v = vars(mod).get(n)
        try:
            target = v.__init__ if isinstance(v, type) else v
            if not inspect.isfunction(target):
                raise TypeError(n)
            ps = list(inspect.signature(target).parameters.values())
        except (TypeError, ValueError):
            sigs.append("(* %s: no signature *)" % n)
            continue
        if isinstance(v, type):
            ps = ps[1:]
        names = []
        for p_ in ps:
            if p_.kind is not inspect.Parameter.POSITIONAL_OR_KEYWORD:
                break                              # *args, keyword-only ...: what follows is not addressable by position
            names.append(p_.name)
        sigs.append("(%s, [%s])" % (q(n), "; ".join(q(x) for x in names)))
    real = [x for x in sigs if not x.startswith("(*")]
    return ("(* classes of the module mentioned by the functions above (no subclasses, no bases) *)\n"
            "Definition py_classes : list string := [%s].\n\n"
            "(* parameter names of the callables the functions above call with keyword arguments *)\n"
            "Definition py_signatures : list (string * list string) :=\n  [%s].%s\n"
            % ("; ".join(q(c) for c in sorted(CLASSES_SEEN)), "; ".join(real),
               "".join("\n" + x for x in sigs if x.startswith("(*"))))


FAILED = []


def gen_function(importlib, modname, fname, coqname, enums):
    out = []
    if True:
        mod = importlib.import_module(modname)
        decorators = []
        if "." in fname:
            # a method, or the getter of a property / cached_property (whose caching is not modelled: the
            # subset has no attribute assignment, so the getter computes the same value every time)
            clsname, member = fname.split(".")
            cls = getattr(mod, clsname, None)
            if not isinstance(cls, type) or cls.__module__ != modname or cls.__name__ != clsname:
                raise TieError("%s.%s is not a class of that module" % (modname, clsname))
            fn = cls.__dict__.get(member)
            if isinstance(fn, property):
                if fn.fset is not None or fn.fdel is not None:
                    raise TieError("%s.%s: property with a setter" % (modname, fname))
                fn, decorators = fn.fget, ["property"]
            elif type(fn).__name__ == "cached_property" and hasattr(fn, "func"):
                fn, decorators = fn.func, ["cached_property"]
            if not inspect.isfunction(fn) or fn.__name__ != member or fn.__module__ != modname \
                    or fn.__qualname__ != fname:
                raise TieError("%s.%s is not a plain method / property getter of that class" % (modname, fname))
        else:
            fn = getattr(mod, fname, None)
            if not inspect.isfunction(fn) or fn.__name__ != fname or fn.__module__ != modname:
                raise TieError("%s.%s is not a plain function of that module" % (modname, fname))
        src = textwrap.dedent(inspect.getsource(fn))
        tree = ast.parse(src)
        if len(tree.body) != 1 or not isinstance(tree.body[0], ast.FunctionDef):
            raise TieError("%s.%s is not a plain function" % (modname, fname))
        fd = tree.body[0]
        a = fd.args
        if [d.id if isinstance(d, ast.Name) else None for d in fd.decorator_list] != decorators:
            raise TieError("%s.%s: decorators outside the subset" % (modname, fname))
        if a.vararg or a.kwarg or a.kwonlyargs or a.kw_defaults or a.posonlyargs:
            raise TieError("%s.%s: signature outside the subset" % (modname, fname))
        if any(isinstance(n, (ast.Yield, ast.YieldFrom, ast.Await, ast.Lambda, ast.FunctionDef, ast.ClassDef,
                              ast.Global, ast.Nonlocal)) for b in fd.body for n in ast.walk(b)):
            raise TieError("%s.%s: generator / nested definition / global declaration" % (modname, fname))
        check_free_names(modname, mod, fname, fd, enums)
        params = [x.arg for x in a.args]
        defaults = [expr(d) for d in a.defaults]
        out.append("(* %s.%s *)" % (modname, fname))
        out.append("Definition %s : fundef :=\n  mkFun [%s] [%s]\n  %s." % (
            coqname, "; ".join(q(p) for p in params), "; ".join(defaults), block(fd.body, 2)))
    return "\n".join(out)


def main():
    texts = []
    try:
        for name, functions, with_enums in FILES:
            texts.append((name, gen(functions, with_enums)))
    except TieError as e:
        print("TIE-ERROR: %s" % e)
        sys.exit(3)
    if os.environ.get("GEN_PURE_STDOUT"):
        for _, text in texts:
            sys.stdout.write(text)
        return
    msgs = []
    for name, text in texts:
        path = os.path.join(OUTDIR, name)
        old = open(path).read() if os.path.exists(path) else None
        if old != text:
            os.makedirs(OUTDIR, exist_ok=True)
            with open(path, "w") as f:
                f.write(text)
            msgs.append("%s rewritten" % name)
        else:
            msgs.append("%s unchanged" % name)
    print(", ".join(msgs) + "".join("; TIE-ERROR " + f for f in FAILED))


if __name__ == "__main__":
    main()
