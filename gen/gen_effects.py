#!/venv/bin/python
"""Translator for C13: an AST-based heap-effect summary of curtsies/formatstring.py.

Run on every check.  Parses $CURTSIES_REPO/curtsies/formatstring.py (default /repo)
with Python's `ast` (the module is NOT imported) and emits coq/Gen/Effects.v:

  * `table : list fn`   one entry per function / method (nested functions and
    lambdas are folded into the function that contains them; module level and
    class-body statements get the pseudo functions "<module>" / "<classbody>"),
    with the list of heap effects the body can perform:
        Store  target attr value     X.attr = value     (also X.attr += ..)
        DelAttr target attr          del X.attr
        Mutate receiver how          in-place mutation of a container / object:
                                     a call of a mutating method (append, extend,
                                     insert, pop, remove, clear, sort, reverse,
                                     update, setdefault, popitem, add, discard,
                                     __setitem__, __delitem__, __iadd__ ...),
                                     "setitem" (x[i] = ..), "delitem" (del x[..]),
                                     "augassign" (x += .. : in place iff the
                                     object has an in-place operator)
        CachedProperty attr          functools.cached_property: stores the
                                     result in self.__dict__[attr]
        Unknown what                 anything the translator does not understand
    Targets, receivers and stored values are classified by `kind`:
        KSelf / KSelfAttr a / KParam p annotation / KVarArgs p / KVarKw p /
        KFresh how / KNone / KImm / KOpResult / KAttr a / KElem kind / KOther why.
    A local name gets the UNION of the kinds of everything it is ever bound to in
    the function (flow-insensitive, so `before = []` ... `before = self.chunks`
    makes `before` both fresh and an alias of self.chunks); an effect through a
    name is emitted once per kind in that union.
  * `calls : list callsite`  the kinds of the positional arguments at every call of
    a module-level function of formatstring.py (so that "parse_args writes into
    its kwargs parameter" can be justified by "every caller passes a fresh dict").

The POLICY (which effects are acceptable where) is not here: it is the Coq
predicate `safe` in coq/Spec/HeapSpec.v, evaluated by the kernel over this table
(theorem effects_safe).  This script only classifies, and FAILS CLOSED: an AST
node type it does not know, a call of setattr/exec/..., an access to __dict__ /
__class__, global/nonlocal statements become `Unknown` effects (which `safe`
rejects); an internal inconsistency raises.

The file is rewritten only when its content changes.
"""
import ast
import os
import sys

REPO = os.environ.get("CURTSIES_REPO", "/repo")
SRC = os.path.join(REPO, "curtsies", "formatstring.py")
PKG = os.path.join(REPO, "curtsies")
OUT = os.path.join(os.path.dirname(os.path.abspath(__file__)), "..", "coq", "Gen", "Effects.v")

MUTATORS = {
    "append", "extend", "insert", "pop", "remove", "clear", "sort", "reverse", "update", "setdefault", "popitem",
    "add", "discard", "difference_update", "intersection_update", "symmetric_difference_update",
    "appendleft", "extendleft", "popleft", "rotate", "move_to_end",
    "__setitem__", "__delitem__", "__iadd__", "__imul__", "__ior__", "__iand__", "__isub__", "__ixor__",
}
# names whose mere use defeats a syntactic effect analysis
DANGEROUS_CALLS = {"setattr", "delattr", "exec", "eval", "globals", "locals", "vars", "__import__", "compile",
                   "object", "super"}
DANGEROUS_ATTRS = {"__dict__", "__class__", "__setattr__", "__delattr__", "__slots__", "__init__", "__new__",
                   "__setstate__", "__set__", "__getattribute__"}
FRESH_BUILTINS = {"list", "dict", "set", "sorted", "bytearray"}
# builtins / imported C functions that return immutable values (ints, strs, bools, tuples, slices)
IMM_CALLS = {"len", "sum", "int", "str", "repr", "bool", "float", "isinstance", "hasattr", "hash", "slice",
             "tuple", "type", "ord", "chr", "abs", "wcswidth", "wcwidth", "seq", "remove_ansi", "format"}
IMM_STR_METHODS = {"join", "format", "lower", "upper", "startswith", "ljust", "rjust"}
# free functions known not to mutate their arguments (builtins, itertools, typing.cast, the C width functions,
# escseqparse / termformatconstants helpers); the module's own functions and classes are analysed themselves.
# A call of any OTHER free function that is handed a pre-existing (non-fresh, non-immutable) object is `Unknown`.
PURE_CALLEES = {"len", "sum", "int", "str", "repr", "bool", "float", "isinstance", "hasattr", "getattr", "hash",
                "slice", "tuple", "type", "ord", "chr", "abs", "list", "dict", "set", "sorted", "zip", "all", "any",
                "max", "min", "range", "enumerate", "reversed", "iter", "next", "map", "filter", "frozenset",
                "chain", "accumulate", "cast", "wcswidth", "wcwidth", "parse", "remove_ansi", "seq", "print",
                "ValueError", "TypeError", "IndexError", "AttributeError", "NotImplementedError", "Exception",
                "AssertionError", "KeyError"}

KNOWN_NODES = {
    "Module", "FunctionDef", "ClassDef", "Return", "Delete", "Assign", "AugAssign", "AnnAssign", "For", "While", "If",
    "With", "Raise", "Try", "Assert", "Import", "ImportFrom", "Global", "Nonlocal", "Expr", "Pass", "Break",
    "Continue", "BoolOp", "NamedExpr", "BinOp", "UnaryOp", "Lambda", "IfExp", "Dict", "Set", "ListComp", "SetComp",
    "DictComp", "GeneratorExp", "Yield", "YieldFrom", "Compare", "Call", "FormattedValue", "JoinedStr", "Constant",
    "Attribute", "Subscript", "Starred", "Name", "List", "Tuple", "Slice", "comprehension", "ExceptHandler",
    "arguments", "arg", "keyword", "alias", "withitem",
    "Load", "Store", "Del", "And", "Or", "Add", "Sub", "Mult", "MatMult", "Div", "Mod", "Pow", "LShift", "RShift",
    "BitOr", "BitXor", "BitAnd", "FloorDiv", "Invert", "Not", "UAdd", "USub", "Eq", "NotEq", "Lt", "LtE", "Gt",
    "GtE", "Is", "IsNot", "In", "NotIn",
}


def q(s):
    s = "".join(ch if 32 <= ord(ch) < 127 else "?" for ch in s)
    return '"' + s.replace('"', '""') + '"'


# kinds are tuples ("KSelf",) ("KSelfAttr", a) ... printed as Coq terms
def coq_kind(k):
    tag = k[0]
    if tag in ("KSelf", "KNone", "KImm", "KOpResult"):
        return tag
    if tag == "KElem":
        return "(KElem %s)" % coq_kind(k[1])
    return "(%s %s)" % (tag, " ".join(q(x) for x in k[1:]))


def coq_effect(e):
    tag = e[0]
    if tag == "Store":
        return "Store %s %s %s" % (coq_kind(e[1]), q(e[2]), coq_kind(e[3]))
    if tag == "DelAttr":
        return "DelAttr %s %s" % (coq_kind(e[1]), q(e[2]))
    if tag == "Mutate":
        return "Mutate %s %s" % (coq_kind(e[1]), q(e[2]))
    if tag == "CachedProperty":
        return "CachedProperty %s" % q(e[1])
    if tag == "Unknown":
        return "Unknown %s" % q(e[1])
    raise AssertionError(e)


def one(kinds):
    """a set of kinds as ONE kind (for stored values / call arguments)"""
    kinds = set(kinds)
    if len(kinds) == 1:
        return next(iter(kinds))
    if not kinds:
        return ("KOther", "unbound")
    return ("KOther", "mixed:" + "|".join(sorted(k[0] for k in kinds)))


class Fn:
    """analysis of one function (or of module-level / class-body statements)"""

    def __init__(self, cls, name, body, args, decorators, module_classes, module_functions, is_method):
        self.cls = cls
        self.name = name
        self.body = body
        self.decorators = decorators
        self.module_classes = module_classes
        self.module_functions = module_functions
        self.params = {}       # name -> kind
        self.bindings = {}     # name -> list of ("expr", node) | ("kind", kind) | ("aug", target_name, value node)
        self.lambdas = {}      # name -> list of Lambda nodes bound to it
        self.nested_defs = {}  # name -> list of nested FunctionDef nodes of that name
        self.effects = []
        self.calls = []
        self.self_name = None
        if args is not None:
            self.bind_params(args, is_method and "staticmethod" not in decorators, outer=True)
        for st in body:
            self.collect(st)
        for st in body:
            self.walk(st)
        if "cached_property" in decorators:
            self.emit(("CachedProperty", name))

    # ---- parameters ---------------------------------------------------------
    def bind_params(self, args, has_self, outer):
        pos = list(args.posonlyargs) + list(args.args)
        for i, a in enumerate(pos):
            if outer and has_self and i == 0:
                self.self_name = a.arg
                self.params[a.arg] = ("KSelf",)
            elif outer:
                self.params[a.arg] = ("KParam", a.arg, ast.unparse(a.annotation) if a.annotation else "")
            else:
                self.add_binding(a.arg, ("kind", ("KOther", "nested-param")))
        for a in args.kwonlyargs:
            if outer:
                self.params[a.arg] = ("KParam", a.arg, ast.unparse(a.annotation) if a.annotation else "")
            else:
                self.add_binding(a.arg, ("kind", ("KOther", "nested-param")))
        if args.vararg:
            if outer:
                self.params[args.vararg.arg] = ("KVarArgs", args.vararg.arg)
            else:
                self.add_binding(args.vararg.arg, ("kind", ("KOther", "nested-param")))
        if args.kwarg:
            if outer:
                self.params[args.kwarg.arg] = ("KVarKw", args.kwarg.arg)
            else:
                self.add_binding(args.kwarg.arg, ("kind", ("KOther", "nested-param")))

    def add_binding(self, name, b):
        self.bindings.setdefault(name, []).append(b)

    # ---- pass 1: every binding of every local name ------------------------------
    def bind_target(self, t, src):
        """src: ("expr", node) or ("kind", k)"""
        if isinstance(t, ast.Name):
            self.add_binding(t.id, src)
            if src[0] == "expr" and isinstance(src[1], ast.Lambda):
                self.lambdas.setdefault(t.id, []).append(src[1])
            elif src[0] == "expr" or src[0] == "kind":
                self.lambdas.setdefault(t.id, []).append(None)
        elif isinstance(t, (ast.Tuple, ast.List)):
            for e in t.elts:
                self.bind_target(e, ("kind", ("KOther", "unpacked")))
        elif isinstance(t, ast.Starred):
            self.bind_target(t.value, ("kind", ("KOther", "unpacked")))
        # Attribute / Subscript targets bind no name (their effects are found in pass 2)

    def collect(self, node):
        for n in ast.walk(node):
            if isinstance(n, ast.Assign):
                for t in n.targets:
                    self.bind_target(t, ("expr", n.value))
            elif isinstance(n, ast.AnnAssign):
                if n.value is not None:
                    self.bind_target(n.target, ("expr", n.value))
            elif isinstance(n, ast.AugAssign):
                if isinstance(n.target, ast.Name):
                    self.add_binding(n.target.id, ("aug", n.target.id, n.value))
                    self.lambdas.setdefault(n.target.id, []).append(None)
            elif isinstance(n, ast.NamedExpr):
                self.bind_target(n.target, ("expr", n.value))
            elif isinstance(n, (ast.For, ast.comprehension)):
                self.bind_target(n.target, ("kind", ("KOther", "loop-variable")))
            elif isinstance(n, ast.With):
                for it in n.items:
                    if it.optional_vars is not None:
                        self.bind_target(it.optional_vars, ("kind", ("KOther", "with-as")))
            elif isinstance(n, ast.ExceptHandler):
                if n.name:
                    self.add_binding(n.name, ("kind", ("KOther", "exception")))
            elif isinstance(n, (ast.Import, ast.ImportFrom)):
                for al in n.names:
                    self.add_binding((al.asname or al.name).split(".")[0], ("kind", ("KOther", "import")))
            elif isinstance(n, ast.FunctionDef):
                self.add_binding(n.name, ("kind", ("KOther", "nested-function")))
                self.nested_defs.setdefault(n.name, []).append(n)
                self.bind_params(n.args, False, outer=False)
            elif isinstance(n, ast.Lambda):
                self.bind_params(n.args, False, outer=False)
            elif isinstance(n, ast.ClassDef) and self.name not in ("<module>",):
                self.emit(("Unknown", "nested class " + n.name))

    # ---- kinds ----------------------------------------------------------------------
    def name_kinds(self, name, seen):
        if name in self.params and name not in self.bindings:
            return {self.params[name]}
        out = set()
        if name in self.params:
            out.add(self.params[name])
        if name not in self.bindings:
            return out or {("KOther", "global:" + name)}
        if name in seen:
            return out
        seen = seen | {name}
        for b in self.bindings[name]:
            if b[0] == "kind":
                out.add(b[1])
            elif b[0] == "expr":
                out |= self.kinds(b[1], seen)
            elif b[0] == "aug":
                # x += e : same object if it has an in-place operator, else the result of x + e
                rhs = self.kinds(b[2], seen)
                others = set()
                for b2 in self.bindings[name]:
                    if b2[0] == "kind":
                        others.add(b2[1])
                    elif b2[0] == "expr":
                        others |= self.kinds(b2[1], seen)
                if name in self.params:
                    others.add(self.params[name])
                if all(k[0] in ("KImm", "KNone") for k in rhs | others):
                    out.add(("KImm",))
                else:
                    out.add(("KOpResult",))
        return out

    def kinds(self, e, seen=frozenset()):
        """set of kinds the value of expression e may have"""
        if isinstance(e, ast.Constant):
            return {("KNone",)} if e.value is None else {("KImm",)}
        if isinstance(e, (ast.JoinedStr, ast.Compare, ast.Tuple, ast.Slice)):
            return {("KImm",)}
        if isinstance(e, ast.List):
            return {("KFresh", "list-display")}
        if isinstance(e, ast.ListComp):
            return {("KFresh", "list-comprehension")}
        if isinstance(e, ast.Dict):
            return {("KFresh", "dict-display")}
        if isinstance(e, ast.DictComp):
            return {("KFresh", "dict-comprehension")}
        if isinstance(e, (ast.Set, ast.SetComp)):
            return {("KFresh", "set")}
        if isinstance(e, ast.GeneratorExp):
            return {("KOther", "generator")}
        if isinstance(e, ast.BoolOp):
            out = set()
            for v in e.values:
                out |= self.kinds(v, seen)
            return out
        if isinstance(e, ast.IfExp):
            return self.kinds(e.body, seen) | self.kinds(e.orelse, seen)
        if isinstance(e, ast.NamedExpr):
            return self.kinds(e.value, seen)
        if isinstance(e, ast.UnaryOp):
            if isinstance(e.op, ast.Not):
                return {("KImm",)}
            ks = self.kinds(e.operand, seen)
            return {("KImm",)} if all(k[0] == "KImm" for k in ks) else {("KOpResult",)}
        if isinstance(e, ast.BinOp):
            ks = self.kinds(e.left, seen) | self.kinds(e.right, seen)
            return {("KImm",)} if all(k[0] in ("KImm",) for k in ks) else {("KOpResult",)}
        if isinstance(e, ast.Name):
            if e.id == self.self_name and e.id not in self.bindings:
                return {("KSelf",)}
            return self.name_kinds(e.id, seen)
        if isinstance(e, ast.Attribute):
            ks = self.kinds(e.value, seen)
            if ks == {("KSelf",)}:
                return {("KSelfAttr", e.attr)}
            return {("KAttr", e.attr)}
        if isinstance(e, ast.Subscript):
            out = set()
            for k in self.kinds(e.value, seen):
                out.add(("KElem", k) if k[0] != "KElem" else ("KOther", "nested-element"))
            return out
        if isinstance(e, ast.Call):
            f = e.func
            if isinstance(f, ast.Name):
                if f.id in self.bindings or f.id in self.params:
                    lams = self.lambdas.get(f.id, [None])
                    if lams and all(l is not None for l in lams) and f.id not in self.params:
                        out = set()
                        for l in lams:
                            out |= self.kinds(l.body, seen)
                        if all(k[0] == "KFresh" for k in out):
                            return out
                    # a nested `def` bound exactly once and nowhere rebound, every return of which hands back an
                    # object allocated in that call (the same thing as a lambda with a fresh body)
                    defs = self.nested_defs.get(f.id, [])
                    if len(defs) == 1 and len(self.bindings.get(f.id, [])) == 1 and f.id not in self.params:
                        rets = [r for r in ast.walk(defs[0]) if isinstance(r, ast.Return)]
                        inner = [d for d in ast.walk(defs[0]) if isinstance(d, (ast.FunctionDef, ast.Lambda)) and d is not defs[0]]
                        if rets and not inner and all(r.value is not None for r in rets):
                            out = set()
                            for r in rets:
                                out |= self.kinds(r.value, seen)
                            if out and all(k[0] == "KFresh" for k in out):
                                return out
                    return {("KOther", "call:" + f.id)}
                if f.id in FRESH_BUILTINS:
                    return {("KFresh", f.id)}
                if f.id in self.module_classes:
                    return {("KFresh", f.id)}
                if f.id in IMM_CALLS:
                    return {("KImm",)}
                if f.id in ("max", "min"):
                    ks = set()
                    for a in e.args:
                        ks |= self.kinds(a, seen)
                    if not e.keywords and all(k[0] == "KImm" for k in ks):
                        return {("KImm",)}
                    return {("KOther", "call:" + f.id)}
                if f.id == "cast" and len(e.args) == 2:
                    return self.kinds(e.args[1], seen)
                return {("KOther", "call:" + f.id)}
            if isinstance(f, ast.Attribute):
                if isinstance(f.value, ast.Constant) and isinstance(f.value.value, str) and f.attr in IMM_STR_METHODS:
                    return {("KImm",)}
                return {("KOther", "call:." + f.attr)}
            return {("KOther", "call")}
        return {("KOther", type(e).__name__)}

    # ---- pass 2: effects ----------------------------------------------------------------
    def emit(self, eff):
        if eff not in self.effects:
            self.effects.append(eff)

    def store_target(self, t, value_kind):
        if isinstance(t, ast.Name):
            return
        if isinstance(t, ast.Attribute):
            for k in sorted(self.kinds(t.value)):
                self.emit(("Store", k, t.attr, value_kind))
        elif isinstance(t, ast.Subscript):
            for k in sorted(self.kinds(t.value)):
                self.emit(("Mutate", k, "setitem"))
        elif isinstance(t, (ast.Tuple, ast.List)):
            for e in t.elts:
                self.store_target(e, ("KOther", "unpacked"))
        elif isinstance(t, ast.Starred):
            self.store_target(t.value, ("KOther", "unpacked"))
        else:
            self.emit(("Unknown", "store target " + type(t).__name__))

    def walk(self, node):
        for n in ast.walk(node):
            tn = type(n).__name__
            if tn not in KNOWN_NODES:
                self.emit(("Unknown", "ast node " + tn))
                continue
            if isinstance(n, ast.Assign):
                vk = one(self.kinds(n.value))
                for t in n.targets:
                    self.store_target(t, vk)
            elif isinstance(n, ast.AnnAssign):
                if n.value is not None:
                    self.store_target(n.target, one(self.kinds(n.value)))
            elif isinstance(n, ast.NamedExpr):
                self.store_target(n.target, one(self.kinds(n.value)))
            elif isinstance(n, (ast.For, ast.comprehension)):
                self.store_target(n.target, ("KOther", "loop-variable"))
            elif isinstance(n, ast.With):
                for it in n.items:
                    if it.optional_vars is not None:
                        self.store_target(it.optional_vars, ("KOther", "with-as"))
            elif isinstance(n, ast.AugAssign):
                t = n.target
                if isinstance(t, ast.Name):
                    for k in sorted(self.kinds(t)):
                        self.emit(("Mutate", k, "augassign"))
                elif isinstance(t, ast.Attribute):
                    for k in sorted(self.kinds(t.value)):
                        self.emit(("Store", k, t.attr, ("KOpResult",)))
                    for k in sorted(self.kinds(t)):
                        self.emit(("Mutate", k, "augassign"))
                elif isinstance(t, ast.Subscript):
                    for k in sorted(self.kinds(t.value)):
                        self.emit(("Mutate", k, "setitem"))
                    for k in sorted(self.kinds(t)):
                        self.emit(("Mutate", k, "augassign"))
                else:
                    self.emit(("Unknown", "augassign target " + type(t).__name__))
            elif isinstance(n, ast.Delete):
                for t in n.targets:
                    if isinstance(t, ast.Name):
                        pass
                    elif isinstance(t, ast.Attribute):
                        for k in sorted(self.kinds(t.value)):
                            self.emit(("DelAttr", k, t.attr))
                    elif isinstance(t, ast.Subscript):
                        for k in sorted(self.kinds(t.value)):
                            self.emit(("Mutate", k, "delitem"))
                    else:
                        self.emit(("Unknown", "del target " + type(t).__name__))
            elif isinstance(n, (ast.Global, ast.Nonlocal)):
                self.emit(("Unknown", tn.lower() + " " + ",".join(n.names)))
            elif isinstance(n, ast.Attribute):
                if n.attr in DANGEROUS_ATTRS:
                    self.emit(("Unknown", "attribute " + n.attr))
            elif isinstance(n, ast.Call):
                f = n.func
                if isinstance(f, ast.Attribute) and f.attr in MUTATORS:
                    for k in sorted(self.kinds(f.value)):
                        self.emit(("Mutate", k, f.attr))
                if isinstance(f, ast.Name) and f.id in DANGEROUS_CALLS and f.id not in self.bindings:
                    self.emit(("Unknown", "call " + f.id))
                if isinstance(f, ast.Name) and f.id not in PURE_CALLEES and f.id not in self.module_functions \
                        and f.id not in self.module_classes and f.id not in self.bindings \
                        and f.id not in DANGEROUS_CALLS:
                    handed = set()
                    for a in list(n.args) + [kw.value for kw in n.keywords]:
                        handed |= self.kinds(a.value if isinstance(a, ast.Starred) else a)
                    if any(k[0] not in ("KImm", "KNone", "KFresh", "KOpResult") for k in handed):
                        self.emit(("Unknown", "call of unknown function %s with a pre-existing object" % f.id))
                callee = f.id if isinstance(f, ast.Name) else (f.attr if isinstance(f, ast.Attribute) else None)
                if callee in self.module_functions and not (isinstance(f, ast.Name) and f.id in self.bindings):
                    args = []
                    for a in n.args:
                        if isinstance(a, ast.Starred):
                            args.append(("KOther", "starred"))
                        else:
                            args.append(one(self.kinds(a)))
                    for kw in n.keywords:
                        args.append(("KOther", "keyword:" + (kw.arg or "**")))
                    self.calls.append((self.cls, self.name, callee, args))


def always_raises(body):
    stmts = list(body)
    if stmts and isinstance(stmts[0], ast.Expr) and isinstance(stmts[0].value, ast.Constant) \
            and isinstance(stmts[0].value.value, str):
        stmts = stmts[1:]
    return len(stmts) == 1 and isinstance(stmts[0], ast.Raise) and stmts[0].exc is not None


def decorator_names(fd):
    out = []
    for d in fd.decorator_list:
        if isinstance(d, ast.Name):
            out.append(d.id)
        elif isinstance(d, ast.Attribute):
            out.append(ast.unparse(d))
        else:
            out.append("?" + ast.unparse(d))
    return out


def analyse(tree, filename="formatstring.py"):
    module_classes = {n.name for n in tree.body if isinstance(n, ast.ClassDef)}
    module_functions = {n.name for n in tree.body if isinstance(n, ast.FunctionDef)}
    fns = []
    rest = []
    for n in tree.body:
        if isinstance(n, ast.FunctionDef):
            fns.append(("", n, Fn("", n.name, n.body, n.args, decorator_names(n), module_classes, module_functions,
                                  False)))
        elif isinstance(n, ast.ClassDef):
            crest = []
            for m in n.body:
                if isinstance(m, ast.FunctionDef):
                    fns.append((n.name, m, Fn(n.name, m.name, m.body, m.args, decorator_names(m), module_classes,
                                              module_functions, True)))
                elif isinstance(m, (ast.AsyncFunctionDef, ast.ClassDef)):
                    crest.append(ast.Expr(ast.Constant(0)))
                    fns.append((n.name, None, None))
                    raise SystemExit("TIE-ERROR: unsupported member %s in class %s" % (type(m).__name__, n.name))
                else:
                    crest.append(m)
            cb = Fn(n.name, "<classbody>", crest, None, [], module_classes, module_functions, False)
            fns.append((n.name, None, cb))
            bases = [ast.unparse(b) for b in n.bases]
            cb.bases = bases
            if n.keywords or n.decorator_list:
                cb.emit(("Unknown", "class keywords/decorators"))
        elif isinstance(n, ast.AsyncFunctionDef):
            raise SystemExit("TIE-ERROR: async function at module level")
        else:
            rest.append(n)
    fns.append(("", None, Fn("", "<module>", rest, None, [], module_classes, module_functions, False)))
    return fns


def other_callers(module_functions):
    """calls of formatstring's module-level functions that mutate a parameter, from other modules of the package"""
    out = []
    for fn in sorted(os.listdir(PKG)):
        if not fn.endswith(".py") or fn == "formatstring.py":
            continue
        src = open(os.path.join(PKG, fn), encoding="utf8").read()
        if "parse_args" not in src:
            continue
        tree = ast.parse(src)
        for n in ast.walk(tree):
            if isinstance(n, ast.Call):
                f = n.func
                callee = f.id if isinstance(f, ast.Name) else (f.attr if isinstance(f, ast.Attribute) else None)
                if callee == "parse_args":
                    out.append((fn, "?", callee, [("KOther", "call from another module")] * max(2, len(n.args))))
            elif isinstance(n, ast.Name) and n.id == "parse_args" and not isinstance(n.ctx, ast.Store):
                pass
    return out


PREAMBLE = r'''(* GENERATED by gen/gen_effects.py from curtsies/formatstring.py -- do not edit, do not commit.
   Heap-effect summary of every function / method (see the generator's docstring);
   the acceptance policy is [safe] in Spec/HeapSpec.v, the obligation is
   Props/C13.v effects_safe. *)
From Coq Require Import List String.
Import ListNotations.
Local Open Scope string_scope.

(* what an expression (assignment target, receiver of a mutation, stored value) may denote *)
Inductive kind :=
| KSelf                          (* the method's own first parameter *)
| KSelfAttr (a : string)         (* self.a, or a local that may alias it *)
| KParam (p ann : string)        (* parameter p (or an alias), with its annotation as written *)
| KVarArgs (p : string)          (* *p: a tuple built by the interpreter for this call *)
| KVarKw (p : string)            (* **p: a dict built by the interpreter for this call *)
| KFresh (how : string)          (* allocated in this call: list/dict display or comprehension, list(..), dict(..),
                                    sorted(..), a call of one of the module's classes *)
| KNone                          (* the constant None *)
| KImm                           (* immutable by construction: number / str / tuple constants, comparisons,
                                    f-strings, len/sum/int/str/..., arithmetic over those *)
| KOpResult                      (* result of a binary operator with a non-constant operand *)
| KAttr (a : string)             (* attribute a of something other than self *)
| KElem (of_ : kind)             (* element (subscript) of a container of that kind *)
| KOther (why : string).         (* everything else: call results, loop variables, globals, unknown *)

Inductive effect :=
| Store (target : kind) (attr : string) (value : kind)
| DelAttr (target : kind) (attr : string)
| Mutate (receiver : kind) (how : string)
| CachedProperty (attr : string)
| Unknown (what : string).

Record fn := mkFn {
  fn_class : string;               (* "" for module-level functions *)
  fn_name : string;
  fn_decorators : list string;
  fn_always_raises : bool;         (* the body is nothing but a raise statement *)
  fn_effects : list effect }.

Record callsite := mkCall {
  cs_class : string; cs_fn : string;      (* the caller *)
  cs_callee : string;
  cs_args : list kind }.
'''


def gen():
    src = open(SRC, encoding="utf8").read()
    tree = ast.parse(src)
    fns = analyse(tree)
    out = [PREAMBLE]
    w = out.append
    entries = []
    calls = []
    for cls, node, fa in fns:
        raises = bool(node is not None and always_raises(node.body))
        entries.append("mkFn %s %s [%s] %s\n      [%s]" % (
            q(cls), q(fa.name), "; ".join(q(d) for d in fa.decorators), "true" if raises else "false",
            ";\n       ".join(coq_effect(e) for e in fa.effects)))
        calls += fa.calls
    module_functions = {n.name for n in tree.body if isinstance(n, ast.FunctionDef)}
    calls += other_callers(module_functions)
    w("Definition table : list fn :=\n  [ %s ].\n" % "\n  ; ".join(entries))
    w("Definition calls : list callsite :=\n  [ %s ].\n" % "\n  ; ".join(
        "mkCall %s %s %s [%s]" % (q(c), q(f), q(callee), "; ".join(coq_kind(a) for a in args))
        for c, f, callee, args in calls))
    classes = [(n.name, [ast.unparse(b) for b in n.bases]) for n in tree.body if isinstance(n, ast.ClassDef)]
    w("Definition classes : list (string * list string) :=\n  [ %s ].\n" % "; ".join(
        "(%s, [%s])" % (q(c), "; ".join(q(b) for b in bs)) for c, bs in classes))
    return "\n".join(out)


def main():
    text = gen()
    if os.environ.get("GEN_EFFECTS_STDOUT"):
        sys.stdout.write(text)
        return
    old = open(OUT).read() if os.path.exists(OUT) else None
    if old != text:
        os.makedirs(os.path.dirname(OUT), exist_ok=True)
        with open(OUT, "w") as f:
            f.write(text)
        print("Effects.v rewritten")
    else:
        print("Effects.v unchanged")


if __name__ == "__main__":
    main()
